package rules

import (
	"fmt"
	"go/token"
	"go/types"
	"sort"
	"strings"

	"golang.org/x/tools/go/ssa"

	"hpfscheck/internal/load"
	"hpfscheck/internal/ssax"
)

// E-err: abstract error values with namespace provenance of their path fields.

// strProv is the provenance of a string placed into an error's path field.
//
//	param:<i>        parameter i of the function under analysis, unchanged
//	pderived:<i>     derived from parameter i by path functions / slicing / joining listing names (same namespace)
//	inner            second result of a Mount()/mountPoint() call, or derived from it (inner namespace)
//	os               first result of the name→OS-path mapping (absolute OS path)
//	const:<s>        constant
//	handle           a path remembered in the receiver (file handles, directory handles)
//	errfield:<ns>    path field read out of another error whose namespace is <ns>
//	basename         FileInfo.Name() of a handle
//	unknown
type strProv string

type errAbs struct {
	Kind string    // nil | typed | raw | iface | fileiface | errparam
	T    string    // typed: "PathError" | "LinkError"
	NS   []strProv // typed: provenance of each path field (Path | Old, New); iface: provenance of the path argument(s)
	Arg  int       // errparam: parameter index
	Desc string
	Pos  token.Pos
}

func (a errAbs) key() string {
	ns := make([]string, len(a.NS))
	for i, n := range a.NS {
		ns[i] = string(n)
	}
	return fmt.Sprintf("%s|%s|%s|%d|%s", a.Kind, a.T, strings.Join(ns, ","), a.Arg, a.Desc)
}

type errEngine struct {
	p         *load.Program
	fsI       *types.Interface
	fileI     *types.Interface
	sum       map[*ssa.Function]map[string]errAbs // per function: set of abstract returned errors
	busy      map[*ssa.Function]bool
	osMap     map[*ssa.Function]bool // name→OS-path mapping functions
	provBusy  map[string]bool
	provStack map[ssa.Value]bool
}

func newErrEngine(p *load.Program) *errEngine {
	e := &errEngine{p: p, sum: map[*ssa.Function]map[string]errAbs{}, busy: map[*ssa.Function]bool{}, osMap: map[*ssa.Function]bool{}, provBusy: map[string]bool{}, provStack: map[ssa.Value]bool{}}
	e.fsI = stdIface(p, "io/fs", "FS")
	e.fileI = stdIface(p, "io/fs", "File")
	for _, n := range []string{"toOSPath", "rootedPath"} {
		if fn := p.Method("os", "FS", n); fn != nil {
			e.osMap[fn] = true
		}
	}
	return e
}

func (e *errEngine) isFSIface(t types.Type) bool {
	_, ok := t.Underlying().(*types.Interface)
	return ok && e.fsI != nil && types.Implements(t, e.fsI)
}

func (e *errEngine) isFileIface(t types.Type) bool {
	_, ok := t.Underlying().(*types.Interface)
	return ok && e.fileI != nil && types.Implements(t, e.fileI)
}

// paramIndex returns the index of v among fn's parameters (following trivial wrappers), or -1.
func paramIndex(fn *ssa.Function, v ssa.Value) int {
	for i, p := range fn.Params {
		if ssa.Value(p) == v {
			return i
		}
	}
	return -1
}

// prov computes the provenance of string value v inside fn.
func (e *errEngine) prov(fn *ssa.Function, v ssa.Value, depth int) strProv {
	if v == nil || depth > 30 {
		return "unknown"
	}
	if e.provStack[v] {
		return "" // cyclic definition (loop-carried slice/string): contributes nothing new
	}
	e.provStack[v] = true
	defer delete(e.provStack, v)
	return e.prov1(fn, v, depth)
}

func (e *errEngine) prov1(fn *ssa.Function, v ssa.Value, depth int) strProv {
	if s, ok := ssax.ConstString(v); ok {
		return strProv("const:" + s)
	}
	if k, ok := v.(*ssa.Const); ok && k.IsNil() {
		return "" // nil slice: contributes nothing
	}
	switch x := v.(type) {
	case *ssa.Parameter:
		if i := paramIndex(fn, x); i >= 0 {
			return strProv(fmt.Sprintf("param:%d", i))
		}
		if x.Parent() != fn {
			// parameter of an enclosing function seen from a closure
			if i := paramIndex(x.Parent(), x); i >= 0 && encloses(x.Parent(), fn) {
				return strProv(fmt.Sprintf("param:%d", i))
			}
		}
	case *ssa.FreeVar:
		if b := ssax.ResolveFreeVar(x); b != nil {
			return e.prov(x.Parent().Parent(), b, depth+1)
		}
	case *ssa.Phi:
		var res strProv
		for _, ed := range x.Edges {
			p := e.prov(fn, ed, depth+1)
			res = joinProv(res, p)
		}
		return res
	case *ssa.UnOp:
		if x.Op == token.MUL {
			switch a := x.X.(type) {
			case *ssa.FieldAddr:
				fname := ssax.FieldName(a)
				// field of a local error value under construction (errCopy := *e; errCopy.Path = f(errCopy.Path))
				if al, ok := a.X.(*ssa.Alloc); ok && isErrPtr(al.Type()) && (fname == "Path" || fname == "Old" || fname == "New") {
					key := fmt.Sprintf("%p.%s", al, fname)
					if e.provBusy[key] {
						return ""
					}
					e.provBusy[key] = true
					defer delete(e.provBusy, key)
					return e.fieldProv(fn, al, fname, depth+1)
				}
				if n := ssax.StructOfFieldAddr(a); n != nil {
					switch n.Obj().Name() {
					case "PathError":
						if fname == "Path" {
							return strProv("errfield:" + e.errNSOf(fn, a.X, depth+1))
						}
					case "LinkError":
						if fname == "Old" || fname == "New" {
							return strProv("errfield:" + e.errNSOf(fn, a.X, depth+1))
						}
					}
				}
				return "handle"
			case *ssa.Alloc:
				stores, _ := ssax.CellStores(a)
				var res strProv
				for _, st := range stores {
					res = joinProv(res, e.prov(fn, st.Val, depth+1))
				}
				if res != "" {
					return res
				}
			case *ssa.FreeVar:
				if b := ssax.ResolveFreeVar(a); b != nil {
					if al, ok := b.(*ssa.Alloc); ok {
						stores, _ := ssax.CellStores(al)
						var res strProv
						for _, st := range stores {
							res = joinProv(res, e.prov(st.Parent(), st.Val, depth+1))
						}
						if res != "" {
							return res
						}
					}
				}
			case *ssa.IndexAddr:
				return derived(e.prov(fn, a.X, depth+1))
			}
		}
	case *ssa.Field:
		return "handle"
	case *ssa.Slice:
		return derived(e.prov(fn, x.X, depth+1))
	case *ssa.BinOp:
		if x.Op == token.ADD {
			return derived(joinProv(e.prov(fn, x.X, depth+1), e.prov(fn, x.Y, depth+1)))
		}
	case *ssa.Extract:
		if c, ok := x.Tuple.(*ssa.Call); ok {
			return e.callStrProv(fn, c, x.Index, depth)
		}
		if _, ok := x.Tuple.(*ssa.Next); ok {
			return "listing"
		}
	case *ssa.Call:
		return e.callStrProv(fn, x, 0, depth)
	case *ssa.Alloc:
		// []string literal: join of elements
		var res strProv
		if x.Referrers() != nil {
			for _, r := range *x.Referrers() {
				if ia, ok := r.(*ssa.IndexAddr); ok && ia.Referrers() != nil {
					for _, rr := range *ia.Referrers() {
						if st, ok := rr.(*ssa.Store); ok {
							res = joinProv(res, e.prov(fn, st.Val, depth+1))
						}
					}
				}
			}
		}
		if res != "" {
			return res
		}
	case *ssa.Convert:
		return e.prov(fn, x.X, depth+1)
	case *ssa.ChangeType:
		return e.prov(fn, x.X, depth+1)
	}
	return "unknown"
}

func encloses(outer, inner *ssa.Function) bool {
	for f := inner; f != nil; f = f.Parent() {
		if f == outer {
			return true
		}
	}
	return false
}

func derived(p strProv) strProv {
	s := string(p)
	switch {
	case strings.HasPrefix(s, "param:"):
		return strProv("pderived:" + strings.TrimPrefix(s, "param:"))
	case strings.HasPrefix(s, "const:"):
		return "const:*"
	}
	return p
}

// joinProv merges provenances of alternatives / operands: the "worst" namespace wins, listing names and
// constants do not change the namespace of a parameter-derived path.
func joinProv(a, b strProv) strProv {
	if a == "" {
		return b
	}
	if b == "" {
		return a
	}
	if a == b {
		return a
	}
	rank := func(p strProv) int {
		s := string(p)
		switch {
		case s == "unknown":
			return 9
		case s == "os":
			return 8
		case s == "inner":
			return 7
		case s == "basename":
			return 6
		case strings.HasPrefix(s, "errfield:"):
			return 5
		case s == "handle":
			return 4
		case strings.HasPrefix(s, "pderived:"), strings.HasPrefix(s, "param:"):
			return 3
		case s == "listing":
			return 1
		case strings.HasPrefix(s, "const:"):
			return 0
		}
		return 9
	}
	w, o := a, b
	if rank(b) > rank(a) {
		w, o = b, a
	}
	if rank(w) == 3 {
		// combining a parameter with a constant/listing name/other parameter: derived
		if rank(o) == 3 && paramOf(w) != paramOf(o) {
			return strProv("pderived:" + paramOf(w))
		}
		return derived(w)
	}
	return w
}

func paramOf(p strProv) string {
	s := string(p)
	if i := strings.IndexByte(s, ':'); i >= 0 {
		return s[i+1:]
	}
	return ""
}

// callStrProv: provenance of string result k of call c.
func (e *errEngine) callStrProv(fn *ssa.Function, c *ssa.Call, k int, depth int) strProv {
	cc := c.Common()
	if cc.IsInvoke() {
		switch cc.Method.Name() {
		case "Mount":
			if k == 1 {
				return "inner"
			}
		case "Name":
			return "basename"
		}
		return "unknown"
	}
	if b, ok := cc.Value.(*ssa.Builtin); ok {
		if b.Name() == "append" {
			var res strProv
			for _, a := range cc.Args {
				res = joinProv(res, e.prov(fn, a, depth+1))
			}
			return res
		}
		return "unknown"
	}
	callee := cc.StaticCallee()
	if callee == nil {
		return "unknown"
	}
	if e.osMap[callee] && k == 0 {
		return "os"
	}
	if callee.Pkg != nil {
		switch callee.Pkg.Pkg.Path() {
		case "path", "strings":
			var res strProv
			for _, a := range cc.Args {
				if isStringish(a.Type()) {
					res = joinProv(res, e.prov(fn, a, depth+1))
				}
			}
			return derived(res)
		}
	}
	if e.p.InModule(callee) && callee.Blocks != nil {
		// module function returning a string: mountPoint-like translators and getters
		switch {
		case callee.Name() == "mountPoint" && k == 2, callee.Name() == "Mount" && k == 1:
			return "inner"
		}
		// derive from the returned values of the callee, substituting parameters by the arguments
		var res strProv
		for _, r := range ssax.Returns(callee) {
			if k >= len(r.Results) {
				continue
			}
			p := e.prov(callee, r.Results[k], depth+1)
			res = joinProv(res, e.substProv(fn, c, p, depth))
		}
		if res != "" {
			return res
		}
	}
	return "unknown"
}

// substProv rewrites a provenance expressed over the callee's parameters into the caller's terms.
func (e *errEngine) substProv(caller *ssa.Function, c *ssa.Call, p strProv, depth int) strProv {
	s := string(p)
	if s == "pderived:translated" || s == "errfield:caller" {
		// "in the callee's caller namespace" = the namespace of the names this call passes
		var res strProv
		for _, a := range c.Call.Args {
			if isStr(a.Type()) {
				res = joinProv(res, e.prov(caller, a, depth+1))
			}
		}
		if res == "" {
			return p
		}
		return derived(res)
	}
	for _, pre := range []string{"param:", "pderived:"} {
		if strings.HasPrefix(s, pre) {
			var i int
			fmt.Sscan(strings.TrimPrefix(s, pre), &i)
			if i < len(c.Call.Args) {
				ap := e.prov(caller, c.Call.Args[i], depth+1)
				if pre == "pderived:" {
					return derived(ap)
				}
				return ap
			}
			return "unknown"
		}
	}
	return p
}

// errNSOf: namespace of error value v (used for ErrField provenance): "caller", "inner", "os", "unknown".
func (e *errEngine) errNSOf(fn *ssa.Function, v ssa.Value, depth int) string {
	ns := "caller"
	for _, a := range e.abs(fn, v, depth+1) {
		switch a.Kind {
		case "iface", "typed":
			for _, n := range a.NS {
				s := string(n)
				switch {
				case s == "inner" || s == "errfield:inner":
					ns = worstNS(ns, "inner")
				case s == "os" || s == "errfield:os":
					ns = worstNS(ns, "os")
				case s == "unknown" || s == "errfield:unknown":
					ns = worstNS(ns, "unknown")
				}
			}
		case "errparam":
			ns = worstNS(ns, fmt.Sprintf("errparam%d", a.Arg))
		case "raw":
		}
	}
	return ns
}

func worstNS(a, b string) string {
	rank := map[string]int{"caller": 0, "inner": 2, "os": 3, "unknown": 4}
	ra, ok := rank[a]
	if !ok {
		ra = 1
	}
	rb, ok := rank[b]
	if !ok {
		rb = 1
	}
	if rb > ra {
		return b
	}
	return a
}

// cellOpen: the cells whose stores are being expanded by abs (analyses run on one goroutine per process… guarded by the
// fact that abs is only entered from rule code, which core runs sequentially).
var cellOpen = map[*ssa.Alloc]bool{}

// abs abstracts error value v inside fn.
func (e *errEngine) abs(fn *ssa.Function, v ssa.Value, depth int) []errAbs {
	if v == nil || depth > 30 {
		return []errAbs{{Kind: "raw", Desc: "unresolved value"}}
	}
	if ssax.IsNilConst(v) {
		return []errAbs{{Kind: "nil"}}
	}
	switch x := v.(type) {
	case *ssa.MakeInterface:
		inner := x.X
		if g := ssax.GlobalLoad(inner); g != nil {
			return []errAbs{{Kind: "raw", Desc: "bare " + g.Name(), Pos: x.Pos()}}
		}
		return e.abs(fn, inner, depth+1)
	case *ssa.Alloc:
		if n := namedOfPtr(x.Type()); n != nil {
			switch n.Obj().Name() {
			case "PathError":
				return []errAbs{{Kind: "typed", T: "PathError", NS: []strProv{e.fieldProv(fn, x, "Path", depth)}, Pos: x.Pos()}}
			case "LinkError":
				return []errAbs{{Kind: "typed", T: "LinkError", NS: []strProv{e.fieldProv(fn, x, "Old", depth), e.fieldProv(fn, x, "New", depth)}, Pos: x.Pos()}}
			}
		}
		return []errAbs{{Kind: "raw", Desc: "value of type " + typeString(x.Type()), Pos: x.Pos()}}
	case *ssa.UnOp:
		if x.Op == token.MUL {
			if g, ok := x.X.(*ssa.Global); ok {
				return []errAbs{{Kind: "raw", Desc: "bare " + g.Name(), Pos: x.Pos()}}
			}
			if a, ok := x.X.(*ssa.Alloc); ok {
				// a cell that is being expanded contributes nothing new to its own value (err = wrap(err) in a function
				// whose named result is captured by a deferred closure: without this the expansion is stores^depth)
				if cellOpen[a] {
					return nil
				}
				cellOpen[a] = true
				stores, _ := ssax.CellStores(a)
				var out []errAbs
				for _, st := range stores {
					out = append(out, e.abs(st.Parent(), st.Val, depth+1)...)
				}
				delete(cellOpen, a)
				if len(out) > 0 {
					return out
				}
			}
			if fa, ok := x.X.(*ssa.FieldAddr); ok && ssax.FieldName(fa) == "Err" {
				return []errAbs{{Kind: "raw", Desc: "inner Err of another error", Pos: x.Pos()}}
			}
		}
	case *ssa.Phi:
		var out []errAbs
		for _, ed := range x.Edges {
			out = append(out, e.abs(fn, ed, depth+1)...)
		}
		return out
	case *ssa.ChangeInterface:
		return e.abs(fn, x.X, depth+1)
	case *ssa.ChangeType:
		return e.abs(fn, x.X, depth+1)
	case *ssa.TypeAssert:
		return e.abs(fn, x.X, depth+1)
	case *ssa.Parameter:
		if i := paramIndex(fn, x); i >= 0 {
			return []errAbs{{Kind: "errparam", Arg: i}}
		}
	case *ssa.Extract:
		switch t := x.Tuple.(type) {
		case *ssa.Call:
			return e.callAbs(fn, t, x.Index, depth)
		case *ssa.TypeAssert:
			return e.abs(fn, t.X, depth+1)
		}
	case *ssa.Call:
		return e.callAbs(fn, x, 0, depth)
	}
	return []errAbs{{Kind: "raw", Desc: "untracked value " + v.Name()}}
}

func typeString(t types.Type) string {
	return types.TypeString(t, func(p *types.Package) string { return p.Name() })
}

func (e *errEngine) fieldProv(fn *ssa.Function, a *ssa.Alloc, field string, depth int) strProv {
	sts := fieldStores(a, field)
	var copied strProv
	if a.Referrers() != nil {
		for _, r := range *a.Referrers() {
			if st, ok := r.(*ssa.Store); ok && st.Addr == ssa.Value(a) {
				if u, ok := st.Val.(*ssa.UnOp); ok && u.Op == token.MUL {
					copied = strProv("errfield:" + e.errNSOf(fn, u.X, depth+1))
				}
			}
		}
	}
	if copied != "" {
		res := copied
		for _, st := range sts {
			res = joinProv(res, e.prov(st.Parent(), st.Val, depth+1))
		}
		return res
	}
	if len(sts) == 0 {
		// struct copy: errCopy := *e ; fields rewritten afterwards
		if a.Referrers() != nil {
			for _, r := range *a.Referrers() {
				if st, ok := r.(*ssa.Store); ok && st.Addr == ssa.Value(a) {
					if u, ok := st.Val.(*ssa.UnOp); ok && u.Op == token.MUL {
						return strProv("errfield:" + e.errNSOf(fn, u.X, depth+1))
					}
				}
			}
		}
		return "const:"
	}
	// the last store in program order decides (rewrites of a copied error)
	var res strProv
	for _, st := range sts {
		res = joinProv(res, e.prov(st.Parent(), st.Val, depth+1))
	}
	return res
}

// callAbs abstracts the error result (index k) of call c.
func (e *errEngine) callAbs(fn *ssa.Function, c *ssa.Call, k int, depth int) []errAbs {
	cc := c.Common()
	sig := cc.Signature()
	if k >= sig.Results().Len() {
		return nil
	}
	rt := sig.Results().At(k).Type()
	if !ssax.IsErrorType(rt) && !isErrPtr(rt) {
		return nil
	}
	if cc.IsInvoke() {
		recvT := cc.Value.Type()
		switch {
		case e.isFSIface(recvT):
			var ns []strProv
			for _, a := range cc.Args {
				if b, ok := a.Type().Underlying().(*types.Basic); ok && b.Kind() == types.String {
					ns = append(ns, e.prov(fn, a, depth+1))
				}
			}
			return []errAbs{{Kind: "iface", NS: ns, Desc: ssax.CallName(c), Pos: c.Pos()}}
		case e.isFileIface(recvT), cc.Method.Name() == "Close", hasMethods(recvT, "Read") || hasMethods(recvT, "Write"):
			return []errAbs{{Kind: "fileiface", Desc: ssax.CallName(c), Pos: c.Pos()}}
		}
		return []errAbs{{Kind: "raw", Desc: "error of " + ssax.CallName(c), Pos: c.Pos()}}
	}
	callee := cc.StaticCallee()
	if callee == nil {
		return []errAbs{{Kind: "raw", Desc: "error of a dynamic call", Pos: c.Pos()}}
	}
	if isStdOSFunc(callee) {
		if callee.Signature.Recv() != nil {
			return []errAbs{{Kind: "fileiface", Desc: ssax.CallName(c), Pos: c.Pos()}}
		}
		var ns []strProv
		for _, a := range cc.Args {
			if b, ok := a.Type().Underlying().(*types.Basic); ok && b.Kind() == types.String {
				ns = append(ns, e.prov(fn, a, depth+1))
			}
		}
		return []errAbs{{Kind: "iface", NS: ns, Desc: ssax.CallName(c), Pos: c.Pos()}}
	}
	if !e.p.InModule(callee) || callee.Blocks == nil {
		if callee.Pkg != nil && callee.Pkg.Pkg.Path() == "io/fs" {
			// io/fs.ReadDir / ReadFile / Sub: delegate to the FS with the name unchanged
			var ns []strProv
			for _, a := range cc.Args {
				if b, ok := a.Type().Underlying().(*types.Basic); ok && b.Kind() == types.String {
					ns = append(ns, e.prov(fn, a, depth+1))
				}
			}
			return []errAbs{{Kind: "iface", NS: ns, Desc: ssax.CallName(c), Pos: c.Pos()}}
		}
		return []errAbs{{Kind: "raw", Desc: "error of " + ssax.CallName(c), Pos: c.Pos()}}
	}
	// methods of File types are the handle's own errors
	if recv := callee.Signature.Recv(); recv != nil && e.fileI != nil && types.Implements(recv.Type(), e.fileI) {
		return []errAbs{{Kind: "fileiface", Desc: ssax.CallName(c), Pos: c.Pos()}}
	}
	// translators: apply their transfer function to the abstract values of the error argument
	if kind, ei := e.translator(callee); kind != "" {
		var rebuilt []errAbs
		for _, o := range e.summary(callee) {
			if o.Kind == "typed" {
				rebuilt = append(rebuilt, o)
			}
		}
		var out []errAbs
		for _, a := range e.abs(fn, c.Call.Args[ei], depth+1) {
			if a.Kind == "nil" {
				out = append(out, a)
				continue
			}
			if a.Kind != "typed" && a.Kind != "iface" {
				if returnsParam(callee, callee.Params[ei]) || len(rebuilt) == 0 {
					out = append(out, a)
					continue
				}
				// wrapped into whatever the function builds from its other arguments
				for _, o := range rebuilt {
					na := errAbs{Kind: "typed", T: o.T, Desc: a.Desc, Pos: a.Pos}
					for _, on := range o.NS {
						na.NS = append(na.NS, e.substProv(fn, c, on, depth))
					}
					out = append(out, na)
				}
				continue
			}
			wantT := a.T
			if a.Kind == "iface" || wantT == "any" {
				wantT = "PathError"
				if len(a.NS) >= 2 {
					wantT = "LinkError"
				}
			}
			matched := false
			cands := rebuilt
			same := false
			for _, o := range rebuilt {
				if o.T == wantT {
					same = true
				}
			}
			asserted := assertsType(callee, callee.Params[ei], wantT)
			switch {
			case asserted && same:
				// rebuilt as the same type
			case asserted:
				wantT = "" // converted into whatever the function builds
			case returnsParam(callee, callee.Params[ei]):
				cands = nil // not looked at: passed through
			default:
				wantT = ""
			}
			for _, o := range cands {
				if wantT != "" && o.T != wantT {
					continue
				}
				matched = true
				na := errAbs{Kind: "typed", T: o.T, Desc: a.Desc, Pos: a.Pos}
				if a.Kind == "iface" || a.T == "any" {
					na.T = "any"
				}
				fromOld := rebuiltFromOld(callee, callee.Params[ei])
				for i, on := range o.NS {
					if strings.HasPrefix(string(on), "errfield:errparam") || fromOld {
						old := strProv("unknown")
						if len(a.NS) > 0 {
							old = a.NS[min(i, len(a.NS)-1)]
						}
						na.NS = append(na.NS, e.translateNS(c, callee, kind, ei, old))
					} else {
						na.NS = append(na.NS, e.substProv(fn, c, on, depth))
					}
				}
				out = append(out, na)
			}
			if !matched && rebuiltFromOld(callee, callee.Params[ei]) {
				// delegates the rebuilding to nested translators: every path field is translated from the old one
				na := errAbs{Kind: "typed", T: a.T, Desc: a.Desc, Pos: a.Pos}
				if a.Kind == "iface" || a.T == "any" {
					na.T = "any"
				}
				for _, old := range a.NS {
					na.NS = append(na.NS, e.translateNS(c, callee, kind, ei, old))
				}
				out = append(out, na)
				matched = true
			}
			if !matched {
				out = append(out, a) // the translator passes this kind of error through
			}
		}
		return out
	}
	// module function: substitute its summary
	var out []errAbs
	for _, a := range e.summary(callee) {
		out = append(out, e.subst(fn, c, callee, a, depth)...)
	}
	return out
}

var translatorMemo = map[*ssa.Function][2]interface{}{}

// translator recognises error translators structurally: exactly one error parameter; every return is that
// parameter, a freshly built *PathError/*LinkError (rebuilt from a type assertion of the parameter), or the result
// of another translator applied to it. Kind "mount" when it also takes (name, subPath string), "os" otherwise.
func (e *errEngine) translator(fn *ssa.Function) (string, int) {
	if v, ok := translatorMemo[fn]; ok {
		return v[0].(string), v[1].(int)
	}
	translatorMemo[fn] = [2]interface{}{"", 0}
	if fn.Blocks == nil || fn.Signature.Results().Len() != 1 || !ssax.IsErrorType(fn.Signature.Results().At(0).Type()) {
		return "", 0
	}
	ei, nerr, nstr := -1, 0, 0
	for i, prm := range fn.Params {
		if ssax.IsErrorType(prm.Type()) {
			ei = i
			nerr++
		}
		if isStr(prm.Type()) {
			nstr++
		}
	}
	if nerr != 1 {
		return "", 0
	}
	errP := fn.Params[ei]
	asserts := false
	ssax.Instrs(fn, func(ins ssa.Instruction) {
		if ta, ok := ins.(*ssa.TypeAssert); ok && ta.X == ssa.Value(errP) && isErrPtr(ta.AssertedType) {
			asserts = true
		}
	})
	var fromParam func(v ssa.Value, d int) bool
	fromParam = func(v ssa.Value, d int) bool {
		if d > 10 {
			return false
		}
		switch x := v.(type) {
		case *ssa.Parameter:
			return x == errP
		case *ssa.Const:
			return x.IsNil()
		case *ssa.Phi:
			for _, ed := range x.Edges {
				if !fromParam(ed, d+1) {
					return false
				}
			}
			return true
		case *ssa.MakeInterface:
			if a, ok := x.X.(*ssa.Alloc); ok && isErrPtr(a.Type()) {
				return true
			}
			return fromParam(x.X, d+1)
		case *ssa.Call:
			if callee := ssax.StaticCallee(x); callee != nil && callee != fn {
				if k, i := e.translator(callee); k != "" {
					return fromParam(x.Call.Args[i], d+1)
				}
				if i := errMapper(callee); i >= 0 {
					return fromParam(x.Call.Args[i], d+1)
				}
			}
		case *ssa.UnOp:
			// errCopy.Err of a rebuilt error
			if fa, ok := x.X.(*ssa.FieldAddr); ok && ssax.FieldName(fa) == "Err" {
				return true
			}
			if a, ok := x.X.(*ssa.Alloc); ok {
				stores, _ := ssax.CellStores(a)
				if len(stores) == 0 {
					return false
				}
				for _, st := range stores {
					if !fromParam(st.Val, d+1) {
						return false
					}
				}
				return true
			}
		case *ssa.Extract:
			if ta, ok := x.Tuple.(*ssa.TypeAssert); ok {
				return fromParam(ta.X, d+1)
			}
		case *ssa.TypeAssert:
			return fromParam(x.X, d+1)
		}
		return false
	}
	okAll := true
	callsTranslator := false
	for _, r := range ssax.Returns(fn) {
		v := resolveSpilled(r.Results[0], r)
		if !fromParam(v, 0) {
			okAll = false
		}
		if cl := callProducing(v); cl != nil {
			callsTranslator = true
		}
	}
	if !okAll || !(asserts || callsTranslator) {
		return "", 0
	}

	kind := "os"
	if nstr >= 2 {
		kind = "mount"
	}
	translatorMemo[fn] = [2]interface{}{kind, ei}
	return kind, ei
}

// translateNS: namespace of a path field after translation.
func (e *errEngine) translateNS(c *ssa.Call, callee *ssa.Function, kind string, ei int, n strProv) strProv {
	s := string(n)
	switch kind {
	case "os":
		if s == "os" || s == "errfield:os" {
			return "pderived:translated"
		}
		return n
	case "mount":
		if s != "inner" && s != "errfield:inner" {
			return n // already in the caller's namespace (or worse): unchanged
		}
		var strs []ssa.Value
		for i, a := range c.Call.Args {
			if i != ei && isStr(a.Type()) {
				strs = append(strs, a)
			}
		}
		if len(strs) < 2 {
			return n
		}
		name, sub := strs[len(strs)-2], strs[len(strs)-1]
		if ex, ok := sub.(*ssa.Extract); ok && ex.Index >= 1 {
			if mc, ok := ex.Tuple.(*ssa.Call); ok && len(mc.Call.Args) >= 1 && mc.Call.Args[len(mc.Call.Args)-1] == name {
				return "pderived:translated"
			}
		}
		return "inner"
	}
	return n
}

// subst rewrites an abstract error of the callee into the caller's terms.
func (e *errEngine) subst(caller *ssa.Function, c *ssa.Call, callee *ssa.Function, a errAbs, depth int) []errAbs {
	switch a.Kind {
	case "errparam":
		if a.Arg < len(c.Call.Args) {
			return e.abs(caller, c.Call.Args[a.Arg], depth+1)
		}
		return []errAbs{{Kind: "raw", Desc: "unresolved error parameter"}}
	case "typed", "iface":
		na := a
		na.NS = nil
		for _, n := range a.NS {
			s := string(n)
			if strings.HasPrefix(s, "errfield:errparam") {
				var i int
				fmt.Sscan(strings.TrimPrefix(s, "errfield:errparam"), &i)
				if i < len(c.Call.Args) {
					na.NS = append(na.NS, strProv("errfield:"+e.errNSOf(caller, c.Call.Args[i], depth+1)))
					continue
				}
			}
			na.NS = append(na.NS, e.substProv(caller, c, n, depth))
		}
		if na.Pos == token.NoPos {
			na.Pos = c.Pos()
		}
		return []errAbs{na}
	}
	return []errAbs{a}
}

// translatorKind: "mount" for func(err error, name, subPath string) error rewriting the path fields from the old ones;
// "os" for func(error) error of package os reaching strings.TrimPrefix.
func (e *errEngine) translatorKind(fn *ssa.Function) string {
	sig := fn.Signature
	np := sig.Params().Len()
	if sig.Results().Len() != 1 || !ssax.IsErrorType(sig.Results().At(0).Type()) {
		return ""
	}
	if np == 3 && ssax.IsErrorType(sig.Params().At(0).Type()) && isStr(sig.Params().At(1).Type()) && isStr(sig.Params().At(2).Type()) {
		return "mount"
	}
	if np == 1 && ssax.IsErrorType(sig.Params().At(0).Type()) && pkgPathOf(fn) == mod+"/os" {
		return "os"
	}
	return ""
}

func isStr(t types.Type) bool {
	b, ok := t.Underlying().(*types.Basic)
	return ok && b.Kind() == types.String
}

// translated: the namespace after translation. For a mount translator the (name, subPath) arguments must be the
// argument and the second result of the Mount call that produced the inner name.
func (e *errEngine) translated(caller *ssa.Function, c *ssa.Call, callee *ssa.Function, kind string, n strProv) strProv {
	s := string(n)
	switch kind {
	case "os":
		if s == "errfield:os" || s == "errfield:caller" {
			return "pderived:translated"
		}
	case "mount":
		args := c.Call.Args
		off := 0
		if callee.Signature.Recv() != nil {
			off = 1
		}
		name, sub := args[off+1], args[off+2]
		if s == "errfield:caller" {
			return "pderived:translated"
		}
		if s == "errfield:inner" {
			// sub must be result #1 of a Mount call whose argument is name
			if ex, ok := sub.(*ssa.Extract); ok && ex.Index == 1 {
				if mc, ok := ex.Tuple.(*ssa.Call); ok && len(mc.Call.Args) >= 1 {
					marg := mc.Call.Args[len(mc.Call.Args)-1]
					if marg == name {
						return "pderived:translated"
					}
				}
			}
			return "inner"
		}
	}
	return n
}

// summary: abstract set of errors fn can return (least fixpoint, callers iterate).
func (e *errEngine) summary(fn *ssa.Function) []errAbs {
	if e.busy[fn] {
		return setList(e.sum[fn])
	}
	if s, ok := e.sum[fn]; ok && s != nil {
		if _, done := s["#done"]; done {
			return setList(s)
		}
	}
	e.busy[fn] = true
	defer delete(e.busy, fn)
	if e.sum[fn] == nil {
		e.sum[fn] = map[string]errAbs{}
	}
	eidx := errLikeIndex(fn.Signature)
	if eidx < 0 {
		return nil
	}
	for round := 0; round < 4; round++ {
		before := len(e.sum[fn])
		for _, r := range ssax.Returns(fn) {
			v := resolveSpilled(r.Results[eidx], r)
			for _, a := range e.abs(fn, v, 0) {
				if a.Pos == token.NoPos {
					a.Pos = r.Pos()
				}
				e.sum[fn][a.key()] = a
			}
		}
		if len(e.sum[fn]) == before {
			break
		}
	}
	e.sum[fn]["#done"] = errAbs{Kind: "#"}
	return setList(e.sum[fn])
}

func setList(m map[string]errAbs) []errAbs {
	var ks []string
	for k := range m {
		if k != "#done" {
			ks = append(ks, k)
		}
	}
	sort.Strings(ks)
	out := make([]errAbs, 0, len(ks))
	for _, k := range ks {
		out = append(out, m[k])
	}
	return out
}

// errMapper: module function with exactly one error parameter whose every return is that parameter or a freshly
// allocated error value (mapping an error to an equivalent one without touching paths). Returns the parameter index or -1.
func errMapper(fn *ssa.Function) int {
	if fn == nil || fn.Blocks == nil || fn.Signature.Results().Len() != 1 || !ssax.IsErrorType(fn.Signature.Results().At(0).Type()) {
		return -1
	}
	ei, n := -1, 0
	for i, prm := range fn.Params {
		if ssax.IsErrorType(prm.Type()) {
			ei = i
			n++
		}
	}
	if n != 1 {
		return -1
	}
	for _, r := range ssax.Returns(fn) {
		v := resolveSpilled(r.Results[0], r)
		if v == ssa.Value(fn.Params[ei]) {
			continue
		}
		if mi, ok := v.(*ssa.MakeInterface); ok {
			if _, isAlloc := mi.X.(*ssa.Alloc); isAlloc {
				continue
			}
		}
		return -1
	}
	return ei
}

var rebuiltMemo = map[*ssa.Function]bool{}

// rebuiltFromOld: the translator computes the new path fields from the old path fields of its error parameter
// (rather than from its string arguments alone).
func rebuiltFromOld(fn *ssa.Function, errP *ssa.Parameter) bool {
	if v, ok := rebuiltMemo[fn]; ok {
		return v
	}
	rebuiltMemo[fn] = false
	isPathField := func(n string) bool { return n == "Path" || n == "Old" || n == "New" }
	var fromErr func(v ssa.Value, d int) bool
	fromErr = func(v ssa.Value, d int) bool {
		if d > 8 || v == nil {
			return false
		}
		switch x := v.(type) {
		case *ssa.Parameter:
			return x == errP
		case *ssa.TypeAssert:
			return fromErr(x.X, d+1)
		case *ssa.Extract:
			return fromErr(x.Tuple, d+1)
		case *ssa.Phi:
			for _, e := range x.Edges {
				if fromErr(e, d+1) {
					return true
				}
			}
		}
		return false
	}
	seen := map[ssa.Value]bool{}
	var walk func(v ssa.Value, d int) bool
	walk = func(v ssa.Value, d int) bool {
		if v == nil || seen[v] || d > 24 {
			return false
		}
		seen[v] = true
		switch x := v.(type) {
		case *ssa.UnOp:
			if fa, ok := x.X.(*ssa.FieldAddr); ok && isPathField(ssax.FieldName(fa)) {
				if fromErr(fa.X, 0) {
					return true
				}
				if al, ok := fa.X.(*ssa.Alloc); ok {
					for _, st := range fieldStores(al, ssax.FieldName(fa)) {
						if walk(st.Val, d+1) {
							return true
						}
					}
					if al.Referrers() != nil {
						for _, r := range *al.Referrers() {
							if st, ok := r.(*ssa.Store); ok && st.Addr == ssa.Value(al) {
								if u, ok := st.Val.(*ssa.UnOp); ok && fromErr(u.X, 0) {
									return true
								}
							}
						}
					}
				}
			}
		case *ssa.Call:
			for _, a := range x.Call.Args {
				if walk(a, d+1) {
					return true
				}
			}
		case *ssa.BinOp:
			return walk(x.X, d+1) || walk(x.Y, d+1)
		case *ssa.Phi:
			for _, e := range x.Edges {
				if walk(e, d+1) {
					return true
				}
			}
		case *ssa.Slice:
			return walk(x.X, d+1)
		}
		return false
	}
	res := false
	ssax.InstrsDeep(fn, func(_ *ssa.Function, ins ssa.Instruction) {
		st, ok := ins.(*ssa.Store)
		if !ok {
			return
		}
		if fa, ok := st.Addr.(*ssa.FieldAddr); ok && isPathField(ssax.FieldName(fa)) {
			if _, isAlloc := fa.X.(*ssa.Alloc); isAlloc && walk(st.Val, 0) {
				res = true
			}
		}
	})
	// nested translators
	if !res {
		ssax.Instrs(fn, func(ins ssa.Instruction) {
			if cl, ok := ins.(*ssa.Call); ok {
				if callee := ssax.StaticCallee(cl); callee != nil && callee != fn && callee.Blocks != nil {
					for i, a := range cl.Call.Args {
						if fromErr(a, 0) && i < len(callee.Params) && ssax.IsErrorType(callee.Params[i].Type()) {
							if rebuiltFromOld(callee, callee.Params[i]) {
								res = true
							}
						}
					}
				}
			}
		})
	}
	rebuiltMemo[fn] = res
	return res
}

// assertsType: fn type-asserts its error parameter to *T (T = "PathError" | "LinkError").
func assertsType(fn *ssa.Function, errP *ssa.Parameter, T string) bool {
	found := false
	ssax.Instrs(fn, func(ins ssa.Instruction) {
		if ta, ok := ins.(*ssa.TypeAssert); ok && ta.X == ssa.Value(errP) {
			if n := namedOfPtr(ta.AssertedType); n != nil && n.Obj().Name() == T {
				found = true
			}
		}
	})
	return found
}

func returnsParam(fn *ssa.Function, errP *ssa.Parameter) bool {
	for _, r := range ssax.Returns(fn) {
		var has func(v ssa.Value, d int) bool
		has = func(v ssa.Value, d int) bool {
			if d > 6 {
				return false
			}
			if v == ssa.Value(errP) {
				return true
			}
			if ph, ok := v.(*ssa.Phi); ok {
				for _, e := range ph.Edges {
					if has(e, d+1) {
						return true
					}
				}
			}
			if u, ok := v.(*ssa.UnOp); ok {
				if a, ok := u.X.(*ssa.Alloc); ok {
					stores, _ := ssax.CellStores(a)
					for _, st := range stores {
						if has(st.Val, d+1) {
							return true
						}
					}
				}
			}
			return false
		}
		if has(resolveSpilled(r.Results[0], r), 0) {
			return true
		}
	}
	return false
}
