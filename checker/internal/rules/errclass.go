package rules

import (
	"fmt"
	"go/token"
	"go/types"
	"sort"
	"strings"

	"golang.org/x/tools/go/ssa"

	"hpfscheck/internal/ssax"
)

// errInfo abstracts an error value: the sentinel globals it may carry and how it is wrapped.
type errInfo struct {
	Sentinels map[string]bool // "ErrInvalid", "ErrClosed", "EOF", …; "?" = unknown/other error value; "nil" = may be nil
	Wrap      map[string]bool // "PathError", "LinkError", "raw", "iface" (result of a dynamic call), "param"
}

func newErrInfo() *errInfo { return &errInfo{Sentinels: map[string]bool{}, Wrap: map[string]bool{}} }

func (e *errInfo) merge(o *errInfo) {
	for k := range o.Sentinels {
		e.Sentinels[k] = true
	}
	for k := range o.Wrap {
		e.Wrap[k] = true
	}
}

func (e *errInfo) String() string {
	var s, w []string
	for k := range e.Sentinels {
		s = append(s, k)
	}
	for k := range e.Wrap {
		w = append(w, k)
	}
	sort.Strings(s)
	sort.Strings(w)
	return "{" + strings.Join(s, ",") + " as " + strings.Join(w, ",") + "}"
}

// only reports whether the sentinel set is exactly {name} (ignoring "nil" if allowNil).
func (e *errInfo) only(name string, allowNil bool) bool {
	if !e.Sentinels[name] {
		return false
	}
	for k := range e.Sentinels {
		if k == name || (allowNil && k == "nil") {
			continue
		}
		return false
	}
	return true
}

// sentinelOfGlobal maps a package-level error variable to a sentinel name.
func sentinelOfGlobal(g *ssa.Global) string {
	if g == nil || g.Pkg == nil {
		return ""
	}
	switch g.Pkg.Pkg.Path() {
	case mod, "io/fs", "os", "io", "syscall", "context":
		n := g.Name()
		if strings.HasPrefix(n, "Err") || n == "EOF" || n == "SkipDir" || n == "Canceled" || n == "DeadlineExceeded" {
			return n
		}
	}
	return ""
}

// classifyErr abstracts error value v (depth-bounded, follows static module callees' returns).
func classifyErr(v ssa.Value) *errInfo {
	return classifyErrD(v, 0, map[ssa.Value]bool{})
}

func classifyErrD(v ssa.Value, depth int, seen map[ssa.Value]bool) *errInfo {
	out := newErrInfo()
	if v == nil {
		return out
	}
	if seen[v] || depth > 6 {
		return out
	}
	seen[v] = true
	if ssax.IsNilConst(v) {
		out.Sentinels["nil"] = true
		return out
	}
	switch x := v.(type) {
	case *ssa.MakeInterface:
		inner := x.X
		// *PathError / *LinkError literal
		if a, ok := inner.(*ssa.Alloc); ok {
			if n := namedOfPtr(a.Type()); n != nil {
				switch n.Obj().Name() {
				case "PathError", "LinkError":
					out.Wrap[n.Obj().Name()] = true
					got := false
					for _, st := range fieldStores(a, "Err") {
						got = true
						in := classifyErrD(st.Val, depth+1, seen)
						for k := range in.Sentinels {
							out.Sentinels[k] = true
						}
					}
					if !got {
						out.Sentinels["?"] = true
					}
					return out
				}
			}
		}
		// syscall.Errno constants etc.
		if g := ssax.GlobalLoad(inner); g != nil {
			if s := sentinelOfGlobal(g); s != "" {
				out.Sentinels[s] = true
				out.Wrap["raw"] = true
				return out
			}
		}
		in := classifyErrD(inner, depth+1, seen)
		if len(in.Sentinels) > 0 {
			out.merge(in)
			return out
		}
		out.Sentinels["?"] = true
		out.Wrap["raw"] = true
		return out
	case *ssa.UnOp:
		if x.Op == token.MUL {
			if g, ok := x.X.(*ssa.Global); ok {
				if s := sentinelOfGlobal(g); s != "" {
					out.Sentinels[s] = true
					out.Wrap["raw"] = true
					return out
				}
			}
			if a, ok := x.X.(*ssa.Alloc); ok {
				stores, _ := ssax.CellStores(a)
				for _, st := range stores {
					out.merge(classifyErrD(st.Val, depth+1, seen))
				}
				if len(stores) > 0 {
					return out
				}
			}
			if fa, ok := x.X.(*ssa.FieldAddr); ok && ssax.FieldName(fa) == "Err" {
				// re-wrapping the Err of another error: class of the inner error is unknown here
				out.Sentinels["?inner"] = true
				return out
			}
		}
	case *ssa.Phi:
		for _, e := range x.Edges {
			out.merge(classifyErrD(e, depth+1, seen))
		}
		return out
	case *ssa.ChangeInterface:
		return classifyErrD(x.X, depth+1, seen)
	case *ssa.ChangeType:
		return classifyErrD(x.X, depth+1, seen)
	case *ssa.Parameter:
		idx := -1
		if x.Parent() != nil {
			for i, q := range x.Parent().Params {
				if q == x {
					idx = i
				}
			}
		}
		out.Sentinels[fmt.Sprintf("?param:%d", idx)] = true
		out.Wrap["param"] = true
		return out
	case *ssa.Extract:
		if c, ok := x.Tuple.(*ssa.Call); ok {
			return classifyCallErr(c, x.Index, depth, seen)
		}
	case *ssa.Call:
		return classifyCallErr(x, 0, depth, seen)
	case *ssa.Alloc:
		if n := namedOfPtr(x.Type()); n != nil && (n.Obj().Name() == "PathError" || n.Obj().Name() == "LinkError") {
			out.Wrap[n.Obj().Name()] = true
			for _, st := range fieldStores(x, "Err") {
				in := classifyErrD(st.Val, depth+1, seen)
				for k := range in.Sentinels {
					out.Sentinels[k] = true
				}
			}
			return out
		}
	}
	out.Sentinels["?"] = true
	return out
}

func classifyCallErr(c *ssa.Call, idx int, depth int, seen map[ssa.Value]bool) *errInfo {
	out := newErrInfo()
	callee := ssax.StaticCallee(c)
	if callee == nil || callee.Blocks == nil || !strings.HasPrefix(pkgPathOf(callee), mod) {
		out.Sentinels["?call"] = true
		out.Wrap["iface"] = true
		return out
	}
	for _, r := range ssax.Returns(callee) {
		if idx >= len(r.Results) {
			continue
		}
		rv := resolveSpilled(r.Results[idx], r)
		in := classifyErrD(rv, depth+1, seen)
		// parameters of the callee (returned or wrapped): substitute the arguments
		for k := range in.Sentinels {
			if !strings.HasPrefix(k, "?param:") {
				continue
			}
			delete(in.Sentinels, k)
			delete(in.Wrap, "param")
			var i int
			fmt.Sscan(strings.TrimPrefix(k, "?param:"), &i)
			if i >= 0 && i < len(c.Call.Args) {
				sub := classifyErrD(c.Call.Args[i], depth+1, seen)
				for sk := range sub.Sentinels {
					in.Sentinels[sk] = true
				}
			} else {
				in.Sentinels["?"] = true
			}
		}
		out.merge(in)
	}
	return out
}

func pkgPathOf(fn *ssa.Function) string {
	if fn == nil {
		return ""
	}
	if fn.Pkg != nil {
		return fn.Pkg.Pkg.Path()
	}
	if fn.Parent() != nil {
		return pkgPathOf(fn.Parent())
	}
	if o := fn.Object(); o != nil && o.Pkg() != nil {
		return o.Pkg().Path()
	}
	return ""
}

func namedOfPtr(t types.Type) *types.Named {
	if p, ok := t.(*types.Pointer); ok {
		t = p.Elem()
	}
	if a, ok := t.(*types.Alias); ok {
		t = types.Unalias(a)
	}
	n, _ := t.(*types.Named)
	return n
}

// fieldStores lists stores into field `name` of the struct allocated by a.
func fieldStores(a *ssa.Alloc, name string) []*ssa.Store {
	var out []*ssa.Store
	if a.Referrers() == nil {
		return nil
	}
	for _, r := range *a.Referrers() {
		fa, ok := r.(*ssa.FieldAddr)
		if !ok || ssax.FieldName(fa) != name || fa.Referrers() == nil {
			continue
		}
		for _, rr := range *fa.Referrers() {
			if st, ok := rr.(*ssa.Store); ok && st.Addr == ssa.Value(fa) {
				out = append(out, st)
			}
		}
	}
	return out
}
