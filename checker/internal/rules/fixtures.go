package rules

import (
	"os"
	"path/filepath"
	"strings"
	"sync"

	"golang.org/x/tools/go/ssa"

	"hpfscheck/internal/core"
	"hpfscheck/internal/load"
)

// Fixture self-test: the engines are run on checker/fixtures (tiny constructs that MUST be reported and their
// repaired twins that MUST NOT) on every run, before /repo. A rule that goes blind or over-reports fails the check.

var (
	fixOnce sync.Once
	fixProg *load.Program
	fixErr  error
)

func fixtureDir(verif string) string {
	if d := os.Getenv("HPFS_FIXTURES"); d != "" {
		return d
	}
	return filepath.Join(verif, "checker", "fixtures")
}

func loadFixtures(verif string) (*load.Program, error) {
	fixOnce.Do(func() {
		fixProg, fixErr = load.LoadModule(fixtureDir(verif), "hpfsfixtures", load.Linux)
	})
	return fixProg, fixErr
}

// runFixtures runs the named engines' fixtures and records the outcomes in c.
func runFixtures(c *core.Ctx, engines ...string) {
	fp, err := loadFixtures(c.VerifDir)
	if err != nil {
		c.Hard("fixtures cannot be loaded: %v", err)
		return
	}
	fn := func(name string) *ssa.Function { return fp.Func("", name) }
	for _, e := range engines {
		sc := core.NewCtx("FIX", "quick", 0, fp.Repo, c.VerifDir, []*load.Program{fp})
		sc.SetProg(fp)
		switch e {
		case "bounds":
			for _, tn := range []string{"GoodBlob", "BadBlob"} {
				if n := fp.Named("", tn); n != nil {
					if sh := discoverBlobShape(fp, n); sh != nil {
						r19SliceBacked(sc, fp, sh)
					}
				}
			}
			fg, bg, _ := sc.Find("R19.1", "GoodBlob.View|slice#1")
			fb, bb, _ := sc.Find("R19.1", "BadBlob.View|slice#1")
			c.FixtureResult("bounds:GoodBlob.View", false, !fg || bg)
			c.FixtureResult("bounds:BadBlob.View", true, fb && bb)
		case "drop":
			check := func(name string, want bool, kind string) {
				f := fn(name)
				if f == nil {
					c.Hard("fixture function %s missing", name)
					return
				}
				bad, _ := dropCheck(fp, f, dropOpts{})
				fired := false
				for _, b := range bad {
					if kind == "" || b.Kind == kind {
						fired = true
					}
				}
				c.FixtureResult("drop:"+name, want, fired)
			}
			check("GoodDrop", false, "")
			check("BadDrop", true, "dropped")
			check("BadDiscard", true, "discarded")
		case "valid":
			va := newValidAnalysis(fp)
			va.solve()
			sum := func(name string) *paramSummary {
				f := fn(name)
				if f == nil {
					return nil
				}
				for _, s := range va.summary(f) {
					if s != nil {
						return s
					}
				}
				return nil
			}
			if s := sum("GoodSink"); s != nil {
				c.FixtureResult("valid:GoodSink", false, s.prim != "" || s.xform != "")
			} else {
				c.Hard("fixture GoodSink missing")
			}
			if s := sum("BadSink"); s != nil {
				c.FixtureResult("valid:BadSink", true, s.prim != "")
			}
			if s := sum("BadLaunder"); s != nil {
				c.FixtureResult("valid:BadLaunder", true, s.xform != "")
			}
			if s := sum("GoodDelegate"); s != nil {
				c.FixtureResult("valid:GoodDelegate", false, s.prim != "" || s.xform != "")
			}
		case "nilguard":
			r17Nullable(sc, fp)
			fg, bg, _ := sc.Find("R17.1", "GoodHandle.Name|nil-guard")
			fb, bb, _ := sc.Find("R17.1", "BadHandle.Name|nil-guard")
			c.FixtureResult("nilguard:GoodHandle", false, !fg || bg)
			c.FixtureResult("nilguard:BadHandle", true, fb && bb)
		case "locks":
			r15Guard(sc, fp, guardSpec{"", "Table", "m", "mutex:mu", "fixture"})
			f, b, msg := sc.Find("R15.1", "Table.m")
			c.FixtureResult("locks:Table.BadSet", true, f && b && strings.Contains(msg, "BadSet"))
			c.FixtureResult("locks:Table.GoodSet", false, strings.Contains(msg, "GoodSet"))
		case "route":
			var fl []*ssa.Function
			for _, n := range []string{"GoodView", "BadView"} {
				if f := fn(n); f != nil {
					fl = append(fl, f)
				} else {
					c.Hard("fixture function %s missing", n)
				}
			}
			r07Routes(sc, fp, fl, "")
			fg, bg, _ := sc.Find("R07.4", "GoodView|fs-result")
			fb, bb, _ := sc.Find("R07.4", "BadView|fs-result")
			c.FixtureResult("route:GoodView", false, !fg || bg)
			c.FixtureResult("route:BadView", true, fb && bb)
		case "pool":
			var fl []*ssa.Function
			for _, n := range []string{"GoodPool", "BadPool"} {
				if f := fn(n); f != nil {
					fl = append(fl, f)
				} else {
					c.Hard("fixture function %s missing", n)
				}
			}
			r17NoPool(sc, fp, fl)
			fg, bg, _ := sc.Find("R17.6", "GoodPool|pool-put#1")
			fb, bb, _ := sc.Find("R17.6", "BadPool|pool-put#1")
			c.FixtureResult("pool:GoodPool", false, !fg || bg)
			c.FixtureResult("pool:BadPool", true, fb && bb)
		case "read":
			for _, tc := range []struct {
				name string
				want bool
			}{{"GoodReadLoop", false}, {"GoodFillLoop", false}, {"BadSingleRead", true}, {"BadShortExit", true}, {"BadEOFTail", true}} {
				f := fn(tc.name)
				if f == nil {
					c.Hard("fixture function %s missing", tc.name)
					continue
				}
				sites := readSites(fp, []*ssa.Function{f})
				fired := len(sites) == 1 && sites[0].bad != ""
				if len(sites) != 1 {
					c.Hard("fixture %s: expected one Read site, found %d", tc.name, len(sites))
				}
				c.FixtureResult("read:"+tc.name, tc.want, fired)
			}
		case "eofmap":
			for _, tc := range []struct {
				name string
				want bool
			}{{"BadEOFMap", true}, {"BadEOFBreak", true}, {"GoodEOFKeep", false}} {
				f := fn(tc.name)
				if f == nil {
					c.Hard("fixture function %s missing", tc.name)
					continue
				}
				sites := truncationSwallowed(fp, []*ssa.Function{f})
				if len(sites) != 1 {
					c.Hard("fixture %s: expected one io.ErrUnexpectedEOF test, found %d", tc.name, len(sites))
					continue
				}
				c.FixtureResult("eofmap:"+tc.name, tc.want, sites[0].bad != "")
			}
		case "once":
			for _, tc := range []struct {
				typ  string
				want bool
			}{{"GoodMemo", false}, {"BadMemo", true}} {
				n := fp.Named("", tc.typ)
				if n == nil {
					c.Hard("fixture type %s missing", tc.typ)
					continue
				}
				sites := onceErrSites(fp, []*ssa.Function{methodsOf(fp, n)["Names"]})
				if len(sites) != 1 {
					c.Hard("fixture %s: expected one Once.Do site, found %d", tc.typ, len(sites))
					continue
				}
				c.FixtureResult("once:"+tc.typ, tc.want, sites[0].bad != "")
			}
		case "notexist":
			for _, tc := range []struct {
				name string
				want bool
			}{{"GoodFirst", false}, {"BadFirst", true}} {
				f := fn(tc.name)
				if f == nil {
					c.Hard("fixture function %s missing", tc.name)
					continue
				}
				sites := notExistSites(fp, []*ssa.Function{f})
				if len(sites) != 1 {
					c.Hard("fixture %s: expected one ErrNotExist return, found %d", tc.name, len(sites))
					continue
				}
				c.FixtureResult("notexist:"+tc.name, tc.want, sites[0].bad)
			}
		case "dirnamed":
			for _, tc := range []struct {
				name string
				want bool
			}{{"BadDirNamed", true}, {"GoodNamed", false}} {
				f := fn(tc.name)
				if f == nil {
					c.Hard("fixture function %s missing", tc.name)
					continue
				}
				c.FixtureResult("dirnamed:"+tc.name, tc.want, len(dirNamedSites(fp, []*ssa.Function{f})) == 1)
			}
		case "fold":
			for _, tc := range []struct {
				name string
				want bool
			}{{"BadFold", true}, {"GoodFold", false}} {
				f := fn(tc.name)
				if f == nil {
					c.Hard("fixture function %s missing", tc.name)
					continue
				}
				c.FixtureResult("fold:"+tc.name, tc.want, len(foldThenCut([]*ssa.Function{f})) == 1)
			}
		case "lockleak":
			n := fp.Named("", "Table")
			if n == nil {
				c.Hard("fixture type Table missing")
				break
			}
			ms := methodsOf(fp, n)
			r17NoLockLeakInHandles(sc, fp, []*ssa.Function{ms["GoodLeak"], ms["BadLeak"]}, "R17.10")
			fg, bg, _ := sc.Find("R17.10", "GoodLeak|mutex-released")
			fb, bb, _ := sc.Find("R17.10", "BadLeak|mutex-released")
			c.FixtureResult("lockleak:GoodLeak", false, !fg || bg)
			c.FixtureResult("lockleak:BadLeak", true, fb && bb)
		case "walkloop":
			for _, tc := range []struct {
				name string
				want bool
			}{{"GoodWalk", false}, {"BadWalk", true}} {
				f := fp.Func("", tc.name)
				if f == nil {
					c.Hard("fixture func %s missing", tc.name)
					continue
				}
				upd, inLoop, bad := walkLoopSkips(fp, f)
				c.FixtureResult("walkloop:"+tc.name, tc.want, upd == nil || !inLoop || bad != "")
			}
		case "rangecb":
			for _, tc := range []struct {
				name string
				want bool
			}{{"GoodRange", false}, {"BadRange", true}} {
				f := fp.Func("", tc.name)
				if f == nil {
					c.Hard("fixture func %s missing", tc.name)
					continue
				}
				r15RangeCallbacksIn(sc, fp, f, "R15.15")
				found, failed, _ := sc.Find("R15.15", tc.name+"|range-callback")
				c.FixtureResult("rangecb:"+tc.name, tc.want, !found || failed)
			}
		case "paging":
			for _, tn := range []string{"GoodDir", "BadDir"} {
				n := fp.Named("", tn)
				if n == nil {
					c.Hard("fixture type %s missing", tn)
					continue
				}
				f := methodsOf(fp, n)["ReadDir"]
				r16Window(sc, fp, typeKey(n), f, listingSlices(f))
			}
			if n := fp.Named("", "PulledDir"); n != nil {
				f := methodsOf(fp, n)["ReadDir"]
				r16CursorMovesByPage(sc, fp, typeKey(n), f, listingSlices(f), "R16.12")
				g := methodsOf(fp, fp.Named("", "GoodDir"))["ReadDir"]
				r16CursorMovesByPage(sc, fp, "GoodDir", g, listingSlices(g), "R16.12")
				fpd, bpd, _ := sc.Find("R16.12", "PulledDir.ReadDir|cursor-moves-by-the-page")
				fgd, bgd, _ := sc.Find("R16.12", "GoodDir.ReadDir|cursor-moves-by-the-page")
				c.FixtureResult("paging:GoodDir.cursor", false, !fgd || bgd)
				c.FixtureResult("paging:PulledDir.cursor", true, fpd && bpd)
			} else {
				c.Hard("fixture type PulledDir missing")
			}
			fg, bg, _ := sc.Find("R16.1", "GoodDir.ReadDir|eof-exit")
			fb, bb, _ := sc.Find("R16.1", "BadDir.ReadDir|eof-exit")
			_, bw, _ := sc.Find("R16.2", "BadDir.ReadDir|window")
			_, gw, _ := sc.Find("R16.2", "GoodDir.ReadDir|window")
			c.FixtureResult("paging:GoodDir.eof", false, !fg || bg)
			c.FixtureResult("paging:BadDir.eof", true, fb && bb)
			c.FixtureResult("paging:GoodDir.window", false, gw)
			c.FixtureResult("paging:BadDir.window", true, bw)
		}
	}
}
