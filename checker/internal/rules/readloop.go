package rules

import (
	"fmt"
	"go/token"
	"go/types"

	"golang.org/x/tools/go/ssa"

	"hpfscheck/internal/core"
	"hpfscheck/internal/load"
	"hpfscheck/internal/ssax"
)

// Read discipline (io.Reader's contract seen from the caller's side). Every call of a method
// Read([]byte) (int, error) in the given functions is one of
//   - a delegation: the count is handed to the function's own caller in a Return (wrappers, blob.Read);
//   - a call of a concrete Read of this module (that method is analysed in its own right);
//   - a read loop: the call lies on a cycle of the CFG, no exit of that cycle is taken because the count is smaller than
//     (or different from) a length — a short count is not the end of the data — and every return that reports success
//     is reached only after the count of the latest Read was looked at (io.Reader: process the n > 0 bytes before
//     considering the error; a Read may return the last bytes together with io.EOF).
//
// A single Read outside a loop that is not a delegation treats one Read as the whole content.

type readSite struct {
	fn   *ssa.Function
	call ssa.CallInstruction
	kind string // "delegation", "module-callee", "loop"
	bad  string
}

func isReadSig(sig *types.Signature) bool {
	if sig.Params().Len() != 1 || sig.Results().Len() != 2 {
		return false
	}
	sl, ok := sig.Params().At(0).Type().Underlying().(*types.Slice)
	if !ok {
		return false
	}
	if b, ok := sl.Elem().Underlying().(*types.Basic); !ok || b.Kind() != types.Byte && b.Kind() != types.Uint8 {
		return false
	}
	if b, ok := sig.Results().At(0).Type().Underlying().(*types.Basic); !ok || b.Kind() != types.Int {
		return false
	}
	return ssax.IsErrorType(sig.Results().At(1).Type())
}

// readCall: ins calls a Read([]byte)(int, error) method; returns the buffer argument.
func readCall(ins ssa.Instruction) (ssa.CallInstruction, ssa.Value, *ssa.Function) {
	ci, ok := ins.(ssa.CallInstruction)
	if !ok {
		return nil, nil, nil
	}
	cc := ci.Common()
	if cc.IsInvoke() {
		if cc.Method.Name() != "Read" || !isReadSig(cc.Method.Type().(*types.Signature)) {
			return nil, nil, nil
		}
		return ci, cc.Args[0], nil
	}
	callee := ssax.StaticCallee(ci)
	if callee == nil || callee.Name() != "Read" || callee.Signature.Recv() == nil || !isReadSig(callee.Signature) {
		return nil, nil, nil
	}
	if len(cc.Args) != 2 {
		return nil, nil, nil
	}
	return ci, cc.Args[1], callee
}

func stripConv(v ssa.Value) ssa.Value {
	for {
		switch x := v.(type) {
		case *ssa.Convert:
			v = x.X
		case *ssa.ChangeType:
			v = x.X
		default:
			return v
		}
	}
}

// derivedFrom: v is computed from root through conversions, additions and phis (the running total of a loop).
func derivedFrom(v, root ssa.Value, depth int, seen map[ssa.Value]bool) bool {
	v = stripConv(v)
	if v == root {
		return true
	}
	if depth > 8 || seen[v] {
		return false
	}
	seen[v] = true
	switch x := v.(type) {
	case *ssa.BinOp:
		if x.Op == token.ADD || x.Op == token.SUB {
			return derivedFrom(x.X, root, depth+1, seen) || derivedFrom(x.Y, root, depth+1, seen)
		}
	case *ssa.Phi:
		for _, e := range x.Edges {
			if derivedFrom(e, root, depth+1, seen) {
				return true
			}
		}
	}
	return false
}

func readSites(p *load.Program, fns []*ssa.Function) []*readSite {
	var out []*readSite
	for _, fn := range fns {
		if fn.Blocks == nil {
			continue
		}
		for _, b := range fn.Blocks {
			for idx, ins := range b.Instrs {
				ci, _, callee := readCall(ins)
				if ci == nil {
					continue
				}
				if _, isGo := ins.(*ssa.Go); isGo {
					continue
				}
				if _, isDefer := ins.(*ssa.Defer); isDefer {
					continue
				}
				s := &readSite{fn: fn, call: ci}
				out = append(out, s)
				if callee != nil && p.InModule(callee) {
					s.kind = "module-callee"
					continue
				}
				cv, _ := ins.(*ssa.Call)
				var n ssa.Value
				if cv != nil {
					if e := ssax.ExtractOf(cv, 0); e != nil {
						n = e
					}
				}
				// delegation: the count (or the whole result tuple) is returned to the caller
				deleg := false
				for _, r := range ssax.Returns(fn) {
					for _, res := range r.Results {
						if n != nil && resolveSpilled(res, r) == n || stripConv(res) == n && n != nil {
							deleg = true
						}
					}
				}
				if deleg {
					s.kind = "delegation"
					continue
				}
				s.kind = "loop"
				scc := cycleOf(b)
				if scc == nil {
					s.bad = "is a single Read outside any loop whose count is not handed to the caller: io.Reader may return fewer bytes than asked without an error, so the rest of the content is silently missing"
					continue
				}
				if n == nil {
					s.bad = "discards the count of the Read"
					continue
				}
				// exits taken on a short count
				for blk := range scc {
					ifi, ok := blk.Instrs[len(blk.Instrs)-1].(*ssa.If)
					if !ok {
						continue
					}
					for si, succ := range blk.Succs {
						if scc[succ] {
							continue
						}
						taken := si == 0
						cond, val := ssax.StripNot(ifi.Cond, taken)
						bo, ok := cond.(*ssa.BinOp)
						if !ok {
							continue
						}
						op := bo.Op
						x, y := bo.X, bo.Y
						xs := derivedFrom(x, n, 0, map[ssa.Value]bool{})
						ys := derivedFrom(y, n, 0, map[ssa.Value]bool{})
						if xs == ys {
							continue
						}
						if ys {
							x, y = y, x
							op = flipRel(op)
						}
						if !val {
							op = negRel(op)
						}
						if k, isK := ssax.ConstInt(stripConv(y)); isK && k <= 0 {
							continue // n == 0 / n > 0 tests say nothing about a short count
						}
						switch op {
						case token.LSS, token.NEQ, token.LEQ:
							s.bad = fmt.Sprintf("leaves its read loop at %s because the count of a Read is smaller than (or differs from) a length: a short count is not the end of the data (only io.EOF or an error is), the rest of the content is silently missing", p.Pos(bo.Pos()))
						}
					}
				}
				if s.bad != "" {
					continue
				}
				// every successful return looked at the count of the latest Read
				eidx := ssax.ErrorResultIndex(fn.Signature)
				st := ssax.NewPathState()
				ssax.EnumPaths(fn, b, idx+1, st, ssax.PathHooks{
					Instr: func(ps *ssax.PathState, i2 ssa.Instruction) {
						if i2 == ins {
							ps.Counts["seen"] = 0
							return
						}
						if e, ok := i2.(*ssa.Extract); ok && e == n {
							return
						}
						for _, op := range i2.Operands(nil) {
							if *op != nil && stripConv(ps.Resolve(*op)) == n {
								ps.Counts["seen"] = 1
							}
						}
					},
					End: func(ps *ssax.PathState, last ssa.Instruction) {
						r, ok := last.(*ssa.Return)
						if !ok || ps.Counts["seen"] == 1 || s.bad != "" {
							return
						}
						if eidx >= 0 {
							e := ps.Resolve(resolveSpilledOnPath(r.Results[eidx], r, ps))
							if !(ssax.IsNilConst(e) || ps.NilOf(e) == ssax.IsNil) {
								return
							}
						}
						s.bad = fmt.Sprintf("reports success at %s without having looked at the count of the latest Read: a Read may return its last bytes together with io.EOF, those bytes are dropped and the copy ends short without any error", p.Pos(r.Pos()))
					},
				})
			}
		}
	}
	return out
}

func flipRel(op token.Token) token.Token {
	switch op {
	case token.LSS:
		return token.GTR
	case token.GTR:
		return token.LSS
	case token.LEQ:
		return token.GEQ
	case token.GEQ:
		return token.LEQ
	}
	return op
}

func negRel(op token.Token) token.Token {
	switch op {
	case token.LSS:
		return token.GEQ
	case token.GEQ:
		return token.LSS
	case token.GTR:
		return token.LEQ
	case token.LEQ:
		return token.GTR
	case token.EQL:
		return token.NEQ
	case token.NEQ:
		return token.EQL
	}
	return op
}

// cycleOf returns the blocks of the strongly connected component of b when b lies on a cycle, nil otherwise.
func cycleOf(b *ssa.BasicBlock) map[*ssa.BasicBlock]bool {
	fwd := map[*ssa.BasicBlock]bool{}
	var walk func(x *ssa.BasicBlock)
	walk = func(x *ssa.BasicBlock) {
		for _, s := range x.Succs {
			if !fwd[s] {
				fwd[s] = true
				walk(s)
			}
		}
	}
	walk(b)
	if !fwd[b] {
		return nil
	}
	bwd := map[*ssa.BasicBlock]bool{}
	var back func(x *ssa.BasicBlock)
	back = func(x *ssa.BasicBlock) {
		for _, s := range x.Preds {
			if !bwd[s] {
				bwd[s] = true
				back(s)
			}
		}
	}
	back(b)
	scc := map[*ssa.BasicBlock]bool{}
	for x := range fwd {
		if bwd[x] {
			scc[x] = true
		}
	}
	return scc
}

// readDiscipline records one obligation per Read call site found in fns under `rule`. Returns the number of sites.
func readDiscipline(c *core.Ctx, p *load.Program, rule string, fns []*ssa.Function) int {
	ord := ordinals{}
	sites := readSites(p, fns)
	for _, s := range sites {
		key := ord.next(fname(s.fn) + "|read")
		if s.bad != "" {
			c.Bad(rule, key, p.Pos(s.call.Pos()), fmt.Sprintf("%s %s", fname(s.fn), s.bad))
		} else {
			c.OK(rule, key, p.Pos(s.call.Pos()), "Read call is a "+s.kind+" that respects io.Reader's contract")
		}
	}
	if len(sites) == 0 {
		c.OK(rule, "no-direct-read", "", "the analysed functions call no Read method directly (copies go through io.Copy/io.CopyBuffer/io.ReadFull)")
	}
	return len(sites)
}

// truncationSwallowed: the sites in fns at which an error is compared with io.ErrUnexpectedEOF (== / errors.Is) and
// the "it is ErrUnexpectedEOF" edge reaches a return whose error result is nil or io.EOF: a truncated stream is
// reported as a regular end.
type eofMapSite struct {
	fn  *ssa.Function
	pos token.Pos
	bad string
}

func truncationSwallowed(p *load.Program, fns []*ssa.Function) []*eofMapSite {
	var out []*eofMapSite
	isUEOF := func(v ssa.Value) bool { return ssax.IsGlobalLoad(ssax.Unwrap(v), "io", "ErrUnexpectedEOF") }
	for _, fn := range fns {
		if fn.Blocks == nil {
			continue
		}
		eidx := ssax.ErrorResultIndex(fn.Signature)
		for _, b := range fn.Blocks {
			ifi, ok := b.Instrs[len(b.Instrs)-1].(*ssa.If)
			if !ok {
				continue
			}
			cond, pol := ssax.StripNot(ifi.Cond, true)
			// pol: value of cond that makes ifi.Cond true
			isEdge := false // value of `cond` on which the error IS ErrUnexpectedEOF
			found := false
			switch x := cond.(type) {
			case *ssa.BinOp:
				if (x.Op == token.EQL || x.Op == token.NEQ) && (isUEOF(x.X) || isUEOF(x.Y)) {
					found, isEdge = true, x.Op == token.EQL
				}
			case *ssa.Call:
				if ssax.CalleeIs(x, "errors", "Is") && len(x.Call.Args) == 2 && isUEOF(x.Call.Args[1]) {
					found, isEdge = true, true
				}
			}
			if !found {
				continue
			}
			_ = pol
			site := &eofMapSite{fn: fn, pos: cond.Pos()}
			out = append(out, site)
			if eidx < 0 {
				continue
			}
			ssax.EnumPaths(fn, b, len(b.Instrs)-1, ssax.NewPathState(), ssax.PathHooks{
				EvalCond: func(ps *ssax.PathState, cv ssa.Value) (bool, bool) {
					c2, v2 := ssax.StripNot(cv, true)
					if c2 == cond && ps.Counts["decided"] == 0 {
						ps.Counts["decided"] = 1
						// cv == (c2 == v2); we want c2 == isEdge
						return isEdge == v2, true
					}
					return false, false
				},
				End: func(ps *ssax.PathState, last ssa.Instruction) {
					r, ok := last.(*ssa.Return)
					if !ok || site.bad != "" {
						return
					}
					e := ps.Resolve(resolveSpilledOnPath(r.Results[eidx], r, ps))
					switch {
					case ssax.IsNilConst(e) || ps.NilOf(e) == ssax.IsNil:
						site.bad = fmt.Sprintf("returns a nil error at %s on the path on which the error is io.ErrUnexpectedEOF", p.Pos(r.Pos()))
					case ssax.IsGlobalLoad(ssax.Unwrap(e), "io", "EOF"):
						site.bad = fmt.Sprintf("returns io.EOF at %s on the path on which the error is io.ErrUnexpectedEOF", p.Pos(r.Pos()))
					}
				},
			})
		}
	}
	return out
}

func r13Truncation(c *core.Ctx, p *load.Program, rule string, fns []*ssa.Function) {
	ord := ordinals{}
	sites := truncationSwallowed(p, fns)
	for _, s := range sites {
		key := ord.next(fname(s.fn) + "|unexpected-eof-test")
		if s.bad != "" {
			c.Bad(rule, key, p.Pos(s.pos), fmt.Sprintf("%s %s: a stream that ends in the middle of an entry (archive/tar and io.ReadFull report it as io.ErrUnexpectedEOF) is taken for a regular end, the cut entry is written, announced and served as if it were complete", fname(s.fn), s.bad))
		} else {
			c.OK(rule, key, p.Pos(s.pos), "the io.ErrUnexpectedEOF edge does not end in success or io.EOF")
		}
	}
	if len(sites) == 0 {
		c.OK(rule, "no-unexpected-eof-test", "", "no function of the package singles io.ErrUnexpectedEOF out; it propagates like any other error (R12.2)")
	}
}
