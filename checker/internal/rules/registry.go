// Package rules holds one file per property; each registers its rule set here.
package rules

import (
	"sort"

	"hpfscheck/internal/core"
	"hpfscheck/internal/load"
)

// Spec describes how a property is checked.
type Spec struct {
	ID      string
	Targets []load.Target // quick-tier targets
	Run     func(c *core.Ctx)
}

var registry = map[string]*Spec{}

func register(s *Spec) { registry[s.ID] = s }

// Get returns the spec of a property.
func Get(id string) *Spec { return registry[id] }

// IDs lists the registered properties.
func IDs() []string {
	var out []string
	for k := range registry {
		out = append(out, k)
	}
	sort.Strings(out)
	return out
}

var allTargets = []load.Target{load.Linux, load.Windows, load.Wasm}
