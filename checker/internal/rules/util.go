package rules

import (
	"fmt"
	"go/token"
	"go/types"
	"sort"
	"strings"

	"golang.org/x/tools/go/ssa"

	"hpfscheck/internal/load"
	"hpfscheck/internal/ssax"
)

const mod = load.ModulePath

// fname is a short function name for keys and messages.
func fname(fn *ssa.Function) string { return load.FuncName(fn) }

// implementers returns the named types of the module whose pointer or value type implements iface.
func implementers(p *load.Program, iface *types.Interface) []*types.Named {
	var out []*types.Named
	for _, pk := range p.Pkgs {
		sc := pk.Types.Scope()
		for _, n := range sc.Names() {
			tn, ok := sc.Lookup(n).(*types.TypeName)
			if !ok || tn.IsAlias() {
				continue
			}
			named, ok := tn.Type().(*types.Named)
			if !ok {
				continue
			}
			if _, isIface := named.Underlying().(*types.Interface); isIface {
				continue
			}
			if types.Implements(named, iface) || types.Implements(types.NewPointer(named), iface) {
				out = append(out, named)
			}
		}
	}
	sort.Slice(out, func(i, j int) bool { return typeKey(out[i]) < typeKey(out[j]) })
	return out
}

func typeKey(n *types.Named) string {
	return strings.TrimPrefix(strings.TrimPrefix(n.Obj().Pkg().Path(), mod), "/") + "." + n.Obj().Name()
}

// ifaceOf returns the interface type named rel.name.
func ifaceOf(p *load.Program, rel, name string) *types.Interface {
	n := p.Named(rel, name)
	if n == nil {
		return nil
	}
	i, _ := n.Underlying().(*types.Interface)
	return i
}

// stdIface looks up an interface type from an imported (non-module) package, e.g. io/fs.FS.
func stdIface(p *load.Program, pkgPath, name string) *types.Interface {
	for _, pk := range p.Pkgs {
		var found *types.Interface
		var visit func(tp *types.Package, depth int)
		seen := map[*types.Package]bool{}
		visit = func(tp *types.Package, depth int) {
			if found != nil || seen[tp] || depth > 6 {
				return
			}
			seen[tp] = true
			if tp.Path() == pkgPath {
				if o := tp.Scope().Lookup(name); o != nil {
					found, _ = o.Type().Underlying().(*types.Interface)
				}
				return
			}
			for _, im := range tp.Imports() {
				visit(im, depth+1)
			}
		}
		visit(pk.Types, 0)
		if found != nil {
			return found
		}
	}
	return nil
}

// methodsOf returns the declared (non-synthetic) methods of *T and T in the module, by name.
func methodsOf(p *load.Program, n *types.Named) map[string]*ssa.Function {
	out := map[string]*ssa.Function{}
	for _, T := range []types.Type{n, types.NewPointer(n)} {
		ms := p.Prog.MethodSets.MethodSet(T)
		for i := 0; i < ms.Len(); i++ {
			sel := ms.At(i)
			fn := p.Prog.MethodValue(sel)
			if fn == nil {
				continue
			}
			if fn.Synthetic != "" {
				// promoted method wrapper: record the underlying declared function if it is in module
				continue
			}
			out[fn.Name()] = fn
		}
	}
	return out
}

// methodSetFuncs returns every method in the method set of *T, including promoted ones,
// resolved to the declared function (wrappers unwrapped where possible).
func methodSetFuncs(p *load.Program, n *types.Named) map[string]*ssa.Function {
	out := map[string]*ssa.Function{}
	ms := p.Prog.MethodSets.MethodSet(types.NewPointer(n))
	for i := 0; i < ms.Len(); i++ {
		sel := ms.At(i)
		fn := p.Prog.MethodValue(sel)
		if fn == nil {
			continue
		}
		out[sel.Obj().Name()] = fn
	}
	return out
}

// recvParam returns the receiver parameter of a method (nil for functions).
func recvParam(fn *ssa.Function) *ssa.Parameter {
	if fn.Signature.Recv() == nil || len(fn.Params) == 0 {
		return nil
	}
	return fn.Params[0]
}

// isLoadOfRecvField reports whether v loads field `field` (by name) through recv (possibly via embedded pointers).
func isLoadOfField(v ssa.Value, base ssa.Value, field string) bool {
	u, ok := v.(*ssa.UnOp)
	if !ok || u.Op != token.MUL {
		return false
	}
	fa, ok := u.X.(*ssa.FieldAddr)
	if !ok {
		return false
	}
	return fa.X == base && ssax.FieldName(fa) == field
}

// ordinalKey builds "<desc>#<n>" keys counting same-descriptor constructs in source order.
type ordinals map[string]int

func (o ordinals) next(desc string) string {
	o[desc]++
	return fmt.Sprintf("%s#%d", desc, o[desc])
}

// returnsNonNilError reports whether block b (or a straight-line successor chain) ends in a Return whose
// error operand is not the nil constant.
func blockReturnsError(b *ssa.BasicBlock) (ret *ssa.Return, errOperand ssa.Value, ok bool) {
	seen := map[*ssa.BasicBlock]bool{}
	for b != nil && !seen[b] {
		seen[b] = true
		last := b.Instrs[len(b.Instrs)-1]
		switch l := last.(type) {
		case *ssa.Return:
			if len(l.Results) == 0 {
				return l, nil, false
			}
			e := l.Results[len(l.Results)-1]
			if !ssax.IsErrorType(e.Type()) {
				return l, nil, false
			}
			// functions with defers spill results into cells: resolve *cell loaded just before the return
			e = resolveSpilled(e, l)
			if e == nil {
				return l, nil, false
			}
			return l, e, !ssax.IsNilConst(e)
		case *ssa.Jump:
			b = b.Succs[0]
		default:
			return nil, nil, false
		}
	}
	return nil, nil, false
}

// resolveSpilled maps a load of a result cell (named results / defer-spilled) to the value stored
// into that cell in the same block before the load; otherwise returns v unchanged.
func resolveSpilled(v ssa.Value, at ssa.Instruction) ssa.Value {
	u, ok := v.(*ssa.UnOp)
	if !ok || u.Op != token.MUL {
		return v
	}
	a, ok := u.X.(*ssa.Alloc)
	if !ok {
		return v
	}
	// walk backwards in the block (and unique-predecessor chain) for the last store to a
	b := u.Block()
	idx := -1
	for i, ins := range b.Instrs {
		if ins == ssa.Instruction(u) {
			idx = i
		}
	}
	for b != nil {
		for i := idx - 1; i >= 0; i-- {
			if st, ok := b.Instrs[i].(*ssa.Store); ok && st.Addr == a {
				return st.Val
			}
			if _, ok := b.Instrs[i].(*ssa.RunDefers); ok {
				// a deferred closure may write the cell: give up unless no closure captures it
				stores, esc := ssax.CellStores(a)
				if esc {
					return v
				}
				for _, s := range stores {
					if s.Parent() != a.Parent() {
						return v
					}
				}
			}
		}
		if len(b.Preds) != 1 {
			return v
		}
		b = b.Preds[0]
		idx = len(b.Instrs)
	}
	return v
}

// stripDotNormalisation: v is `j` with the one normalisation `if j == "." { v = "" }` applied (a two-edge phi of the
// constant "" and j, in a block whose dominating branch tests j against "."). Returns j; otherwise v itself.
// path.Join(root, dir) == "." implies that root is "" (or "."), so the "" alternative forgets no root.
func stripDotNormalisation(v ssa.Value) ssa.Value {
	ph, ok := v.(*ssa.Phi)
	if !ok || len(ph.Edges) != 2 {
		return v
	}
	var j ssa.Value
	empty := false
	for _, e := range ph.Edges {
		if s, isC := ssax.ConstString(e); isC && s == "" {
			empty = true
		} else {
			j = e
		}
	}
	if !empty || j == nil {
		return v
	}
	for d := ph.Block(); d != nil; d = d.Idom() {
		ifi, ok := d.Instrs[len(d.Instrs)-1].(*ssa.If)
		if !ok {
			continue
		}
		bo, ok := ifi.Cond.(*ssa.BinOp)
		if !ok || bo.Op != token.EQL && bo.Op != token.NEQ {
			continue
		}
		var other ssa.Value
		switch {
		case bo.X == j:
			other = bo.Y
		case bo.Y == j:
			other = bo.X
		default:
			continue
		}
		if s, isC := ssax.ConstString(other); isC && s == "." {
			return j
		}
	}
	return v
}

// opBody is a function that carries out (part of) an operation of a root method: the root itself, or a function of
// the same package that the root calls statically and hands some of its own parameters to unchanged. Rules anchored
// in one method (Rename, ...) look at every body, reading the root's parameters through params — extracting the
// second half of a long method into a helper moves the constructs, not the behaviour.
type opBody struct {
	fn     *ssa.Function
	params map[*ssa.Parameter]*ssa.Parameter // root parameter -> this body's parameter
	call   *ssa.Call                         // the call in the root (nil for the root itself)
}

func (b opBody) param(rootParam *ssa.Parameter) *ssa.Parameter {
	if b.call == nil {
		return rootParam
	}
	return b.params[rootParam]
}

func opBodies(root *ssa.Function) []opBody {
	out := []opBody{{fn: root}}
	if root == nil || root.Blocks == nil {
		return out
	}
	seen := map[*ssa.Function]bool{root: true}
	ssax.Instrs(root, func(ins ssa.Instruction) {
		cl, ok := ins.(*ssa.Call)
		if !ok {
			return
		}
		callee := ssax.StaticCallee(cl)
		if callee == nil || seen[callee] || callee.Blocks == nil || callee.Pkg != root.Pkg || len(callee.Params) != len(cl.Call.Args) {
			return
		}
		m := map[*ssa.Parameter]*ssa.Parameter{}
		for i, a := range cl.Call.Args {
			if rp, ok := a.(*ssa.Parameter); ok && rp.Parent() == root && i > 0 {
				m[rp] = callee.Params[i]
			}
		}
		if len(m) == 0 {
			return
		}
		seen[callee] = true
		out = append(out, opBody{fn: callee, params: m, call: cl})
	})
	return out
}

// bodyOf: the opBody of an exported method of the same receiver type that fn is a helper body of (nil if none).
func bodyOf(methods map[string]*ssa.Function, fn *ssa.Function) (*ssa.Function, *opBody) {
	var names []string
	for n := range methods {
		names = append(names, n)
	}
	sort.Strings(names)
	for _, n := range names {
		root := methods[n]
		if root == nil || root == fn || root.Object() == nil || !root.Object().Exported() {
			continue
		}
		for _, b := range opBodies(root) {
			if b.fn == fn && b.call != nil {
				b := b
				return root, &b
			}
		}
	}
	return nil, nil
}
