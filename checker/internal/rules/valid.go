package rules

import (
	"fmt"
	"go/token"
	"go/types"
	"os"
	"sort"
	"strings"

	"golang.org/x/tools/go/ssa"

	"hpfscheck/internal/load"
	"hpfscheck/internal/ssax"
)

// E-valid: name-validity taint analysis.
//
// Roots are string / []string parameters. A value derived from a root has level Unchanged (the root itself,
// possibly through an opaque Mount translation) or Transformed (path.Join/Dir/Trim*/slicing/concatenation…).
// A derived value whose definition is dominated by a proof that the root satisfies ValidPath is clean.
// Sinks: primitive store/OS/mount-table accesses (no tainted value may reach them) and FS-interface path
// operands (only Unchanged values may reach them: delegation; the callee rejects).

type tlevel int

const (
	tNone tlevel = iota
	tUnchanged
	tTransformed
)

func (l tlevel) String() string { return [...]string{"clean", "unchanged", "transformed"}[l] }

func maxL(a, b tlevel) tlevel {
	if a > b {
		return a
	}
	return b
}

type paramSummary struct {
	prim       string // witness: reaches a primitive sink ungated
	xform      string // witness: reaches an FS-interface path operand in transformed form ungated
	pass       bool   // reaches an FS-interface path operand unchanged
	ret        []tlevel
	reject     bool // Rejecting: every may-be-nil-error return happens where the param is Valid
	invCls     bool // InvalidClass: under "param invalid", every reachable return carries an ErrInvalid-class error
	invUnknown bool // the InvalidClass verdict is inconclusive
}

type validAnalysis struct {
	p        *load.Program
	sum      map[*ssa.Function][]*paramSummary // per parameter index (incl. receiver)
	prims    map[*ssa.Function]bool            // primitive-layer functions (Store/Transaction implementations)
	fsIfaces []*types.Interface
	txnI     *types.Interface
	storeI   *types.Interface
	fsI      *types.Interface
	uses     map[*ssa.Function][]useRec // recorded sink uses for evidence
	memoKeys map[string]bool            // container fields whose every insertion key is valid (rule 8)
	wpDepth  int
}

type useRec struct {
	fn    *ssa.Function
	pos   token.Pos
	kind  string // prim | fscall | modcall | mountret
	desc  string
	param int
	level tlevel
	ok    bool
	why   string
}

func newValidAnalysis(p *load.Program) *validAnalysis {
	va := &validAnalysis{p: p, sum: map[*ssa.Function][]*paramSummary{}, prims: map[*ssa.Function]bool{}, uses: map[*ssa.Function][]useRec{}, memoKeys: map[string]bool{}}
	va.txnI = ifaceOf(p, "keyvalue", "Transaction")
	va.storeI = ifaceOf(p, "keyvalue", "Store")
	va.fsI = stdIface(p, "io/fs", "FS")
	for _, I := range []*types.Interface{va.txnI, va.storeI} {
		if I == nil {
			continue
		}
		for _, n := range implementers(p, I) {
			for _, m := range methodsOf(p, n) {
				va.prims[m] = true
			}
		}
	}
	return va
}

func isStringish(t types.Type) bool {
	switch u := t.Underlying().(type) {
	case *types.Basic:
		return u.Kind() == types.String
	case *types.Slice:
		if b, ok := u.Elem().Underlying().(*types.Basic); ok {
			return b.Kind() == types.String
		}
	}
	return false
}

// isFSIface: interface type with an Open(string) method (io/fs.FS and everything embedding it).
func (va *validAnalysis) isFSIface(t types.Type) bool {
	it, ok := t.Underlying().(*types.Interface)
	if !ok {
		return false
	}
	return va.fsI != nil && types.Implements(t, va.fsI) && it.NumMethods() > 0
}

// sinkKind classifies a call: returns kind and the indices (into cc.Args) of path operands.
func (va *validAnalysis) sinkKind(fn *ssa.Function, ci ssa.CallInstruction) (kind string, argIdx []int) {
	cc := ci.Common()
	if cc.IsInvoke() {
		rt := cc.Value.Type()
		isPrim := (va.txnI != nil && types.Identical(rt.Underlying(), va.txnI)) || (va.storeI != nil && types.Implements(rt, va.storeI) && !va.isFSIface(rt) && isStoreLike(rt))
		if isPrim {
			root := fn
			for root.Parent() != nil {
				root = root.Parent()
			}
			if va.prims[root] {
				return "", nil
			}
			for i, a := range cc.Args {
				if isStringish(a.Type()) {
					argIdx = append(argIdx, i)
				}
			}
			return "prim", argIdx
		}
		if va.isFSIface(rt) {
			for i, a := range cc.Args {
				if isStringish(a.Type()) {
					argIdx = append(argIdx, i)
				}
			}
			return "fscall", argIdx
		}
		return "", nil
	}
	callee := cc.StaticCallee()
	if callee == nil {
		return "", nil
	}
	if callee.Pkg != nil && callee.Pkg.Pkg.Path() == "os" && callee.Signature.Recv() == nil {
		for i, a := range cc.Args {
			if isStringish(a.Type()) {
				argIdx = append(argIdx, i)
			}
		}
		if len(argIdx) > 0 {
			return "prim", argIdx
		}
		return "", nil
	}
	// mount table: sync.Map Store/LoadOrStore whose value is a file system
	if ssax.FuncIs(callee, "sync", "(*Map).Store") || ssax.FuncIs(callee, "sync", "(*Map).LoadOrStore") {
		if len(cc.Args) == 3 {
			if mi, ok := cc.Args[2].(*ssa.MakeInterface); ok && va.fsI != nil && types.Implements(mi.X.Type(), va.fsI) {
				return "prim", []int{1}
			}
		}
		return "", nil
	}
	if va.p.InModule(callee) && callee.Blocks != nil {
		for i, a := range cc.Args {
			if isStringish(a.Type()) {
				argIdx = append(argIdx, i)
			}
		}
		if len(argIdx) > 0 {
			return "modcall", argIdx
		}
	}
	return "", nil
}

func isStoreLike(t types.Type) bool { return hasMethods(t, "Get", "Set") }

// transformLevel: level of a stdlib string transform result given the max level of its string args.
func isStringTransform(callee *ssa.Function) bool {
	if callee == nil || callee.Pkg == nil {
		return false
	}
	switch callee.Pkg.Pkg.Path() {
	case "path", "strings", "path/filepath", "unicode/utf8", "bytes", "fmt", "strconv":
		return true
	}
	return false
}

// levels computes the taint level of every value of fn (and its closures) w.r.t. root parameter index pi.
func (va *validAnalysis) levels(fn *ssa.Function, pi int) map[ssa.Value]tlevel {
	lv := map[ssa.Value]tlevel{}
	root := fn.Params[pi]
	lv[root] = tUnchanged
	funcs := []*ssa.Function{fn}
	var addAnon func(f *ssa.Function)
	addAnon = func(f *ssa.Function) {
		for _, a := range f.AnonFuncs {
			funcs = append(funcs, a)
			addAnon(a)
		}
	}
	addAnon(fn)
	get := func(v ssa.Value) tlevel {
		if v == nil {
			return tNone
		}
		return lv[v]
	}
	for changed, rounds := true, 0; changed && rounds < 12; rounds++ {
		changed = false
		set := func(v ssa.Value, l tlevel, at ssa.Instruction) {
			if l > tNone && at != nil && va.validAt(fn, pi, lv, at) {
				l = tNone
			}
			if lv[v] != l && l > lv[v] {
				lv[v] = l
				changed = true
			}
		}
		for _, f := range funcs {
			// free variables: level of the bound value
			if f.Parent() != nil {
				for _, fv := range f.FreeVars {
					if b := ssax.ResolveFreeVar(fv); b != nil {
						if get(b) > lv[fv] {
							lv[fv] = get(b)
							changed = true
						}
					}
				}
			}
			for _, b := range f.Blocks {
				for _, ins := range b.Instrs {
					v, isVal := ins.(ssa.Value)
					switch x := ins.(type) {
					case *ssa.Phi:
						l := tNone
						for _, e := range x.Edges {
							l = maxL(l, get(e))
						}
						set(x, l, x)
					case *ssa.Store:
						// cells and slice elements: the container takes the max of what is stored
						if get(x.Val) > tNone {
							switch a := x.Addr.(type) {
							case *ssa.Alloc:
								set(a, get(x.Val), nil)
							case *ssa.IndexAddr:
								set(a.X, get(x.Val), nil)
							case *ssa.FreeVar:
								set(a, get(x.Val), nil)
							}
						}
					case *ssa.UnOp:
						if x.Op == token.MUL {
							switch a := x.X.(type) {
							case *ssa.Alloc, *ssa.FreeVar:
								set(x, get(a), x)
							case *ssa.IndexAddr:
								set(x, get(a.X), x)
							}
						}
					case *ssa.IndexAddr:
						// address into a tainted slice/array: handled at load
					case *ssa.Index:
						set(x, get(x.X), x)
					case *ssa.Slice:
						if _, isStr := x.X.Type().Underlying().(*types.Basic); isStr {
							if get(x.X) > tNone {
								set(x, tTransformed, x)
							}
						} else {
							set(x, get(x.X), x) // sub-slice of a []string / array keeps elements
						}
					case *ssa.BinOp:
						if x.Op == token.ADD && isStringish(x.Type()) {
							if get(x.X) > tNone || get(x.Y) > tNone {
								set(x, tTransformed, x)
							}
						}
					case *ssa.Convert:
						set(x, get(x.X), x)
					case *ssa.ChangeType:
						set(x, get(x.X), x)
					case *ssa.MakeInterface:
						set(x, get(x.X), x)
					case *ssa.Range:
						set(x, get(x.X), x)
					case *ssa.Next:
						set(x, get(x.Iter), x)
					case *ssa.Extract:
						if c, ok := x.Tuple.(*ssa.Call); ok {
							set(x, va.callResultLevel(c, x.Index, lv), x)
						} else {
							set(x, get(x.Tuple), x)
						}
					case *ssa.Call:
						if isVal && x.Call.Signature().Results().Len() == 1 {
							set(v, va.callResultLevel(x, 0, lv), x)
						}
					}
				}
			}
		}
	}
	return lv
}

// callResultLevel: taint level of result #k of call c.
func (va *validAnalysis) callResultLevel(c *ssa.Call, k int, lv map[ssa.Value]tlevel) tlevel {
	cc := c.Common()
	sig := cc.Signature()
	if k >= sig.Results().Len() || !isStringish(sig.Results().At(k).Type()) {
		return tNone
	}
	if b, ok := cc.Value.(*ssa.Builtin); ok {
		if b.Name() == "append" {
			l := tNone
			for _, a := range cc.Args {
				l = maxL(l, lv[a])
			}
			return l
		}
		return tNone
	}
	if cc.IsInvoke() {
		// MountFS.Mount: the sub-path is an opaque translation of the name
		if cc.Method.Name() == "Mount" && k == 1 && len(cc.Args) == 1 {
			return lv[cc.Args[0]]
		}
		l := tNone
		for _, a := range cc.Args {
			if lv[a] > tNone {
				l = tTransformed
			}
		}
		return l
	}
	callee := cc.StaticCallee()
	if callee == nil {
		return tNone
	}
	if va.p.InModule(callee) && callee.Blocks != nil {
		sums := va.summary(callee)
		l := tNone
		for i, a := range cc.Args {
			if lv[a] == tNone || i >= len(sums) || sums[i] == nil {
				continue
			}
			r := tNone
			if k < len(sums[i].ret) {
				r = sums[i].ret[k]
			}
			switch r {
			case tUnchanged:
				l = maxL(l, lv[a])
			case tTransformed:
				l = tTransformed
			}
		}
		return l
	}
	if isStringTransform(callee) || true {
		for _, a := range cc.Args {
			if lv[a] > tNone && isStringish(a.Type()) {
				return tTransformed
			}
			// variadic []string built from tainted parts
			if lv[a] > tNone {
				return tTransformed
			}
		}
	}
	return tNone
}

// summary returns (computing if necessary) the per-parameter summaries of a module function.
func (va *validAnalysis) summary(fn *ssa.Function) []*paramSummary {
	if s, ok := va.sum[fn]; ok {
		return s
	}
	// optimistic initial value breaks recursion (Rename, removeAll): refined by the outer fixpoint
	s := make([]*paramSummary, len(fn.Params))
	nres := fn.Signature.Results().Len()
	for i, prm := range fn.Params {
		if isStringish(prm.Type()) {
			s[i] = &paramSummary{ret: make([]tlevel, nres), reject: true, invCls: true}
		}
	}
	va.sum[fn] = s
	return s
}

// recompute re-analyses fn and returns true if its summary changed.
func (va *validAnalysis) recompute(fn *ssa.Function) bool {
	old := va.summary(fn)
	changed := false
	var uses []useRec
	for i, prm := range fn.Params {
		if old[i] == nil {
			continue
		}
		lv := va.levels(fn, i)
		ns := &paramSummary{ret: make([]tlevel, len(old[i].ret))}
		// uses
		ssax.InstrsDeep(fn, func(f *ssa.Function, ins ssa.Instruction) {
			switch x := ins.(type) {
			case ssa.CallInstruction:
				kind, idxs := va.sinkKind(f, x)
				if kind == "" {
					return
				}
				cc := x.Common()
				for _, ai := range idxs {
					l := lv[cc.Args[ai]]
					if l == tNone {
						continue
					}
					if va.validAt(fn, i, lv, x) {
						continue // the root is known valid at the use: everything derived from it is acceptable here
					}
					desc := fmt.Sprintf("%s(arg %d)", ssax.CallName(x), ai)
					u := useRec{fn: f, pos: x.Pos(), kind: kind, desc: desc, param: i, level: l, ok: true}
					switch kind {
					case "prim":
						u.ok = false
						u.why = fmt.Sprintf("%s value derived from parameter %s reaches primitive sink %s at %s", l, prm.Name(), desc, va.p.Pos(x.Pos()))
						if ns.prim == "" {
							ns.prim = u.why
						}
					case "fscall":
						if l == tTransformed {
							u.ok = false
							u.why = fmt.Sprintf("transformed value derived from parameter %s is passed as a path to %s at %s without the parameter being known valid", prm.Name(), desc, va.p.Pos(x.Pos()))
							if ns.xform == "" {
								ns.xform = u.why
							}
						} else {
							ns.pass = true
						}
					case "modcall":
						cs := va.summary(cc.StaticCallee())
						if ai < len(cs) && cs[ai] != nil {
							if cs[ai].prim != "" {
								u.ok = false
								u.why = fmt.Sprintf("%s -> %s", va.p.Pos(x.Pos()), cs[ai].prim)
								if ns.prim == "" {
									ns.prim = u.why
								}
							}
							if cs[ai].xform != "" {
								u.ok = false
								u.why = fmt.Sprintf("%s -> %s", va.p.Pos(x.Pos()), cs[ai].xform)
								if ns.xform == "" {
									ns.xform = u.why
								}
							}
							if l == tTransformed && cc.StaticCallee().Name() != "ValidPath" && directGate(cc.StaticCallee(), ai) {
								// the only validity gate the name ever meets is applied to the transformed value:
								// path.Join/Clean turn "..", "a//b", "./x", "x/" into valid-looking paths
								u.ok = false
								u.why = fmt.Sprintf("transformed value derived from parameter %s is passed at %s to %s, whose validity check then sees the cleaned value, not the name: the parameter itself is never known valid", prm.Name(), va.p.Pos(x.Pos()), fname(cc.StaticCallee()))
								if ns.xform == "" {
									ns.xform = u.why
								}
							}
							if cs[ai].pass {
								if l == tTransformed {
									u.ok = false
									u.why = fmt.Sprintf("transformed value derived from parameter %s is passed at %s to %s, which hands it to a file system as a path, without the parameter being known valid", prm.Name(), va.p.Pos(x.Pos()), fname(cc.StaticCallee()))
									if ns.xform == "" {
										ns.xform = u.why
									}
								} else {
									ns.pass = true
								}
							}
						}
					}
					uses = append(uses, u)
				}
			case *ssa.Return:
				if f != fn {
					return
				}
				for k, r := range x.Results {
					if k < len(ns.ret) {
						l := lv[r]
						if l > tNone && va.validAt(fn, i, lv, x) {
							l = tNone
						}
						ns.ret[k] = maxL(ns.ret[k], l)
					}
				}
			}
		})
		ns.reject = va.rejecting(fn, i, lv)
		ns.invCls, ns.invUnknown = old[i].invCls, old[i].invUnknown
		if (ns.prim != "") != (old[i].prim != "") || (ns.xform != "") != (old[i].xform != "") || ns.pass != old[i].pass || ns.reject != old[i].reject || !eqLevels(ns.ret, old[i].ret) {
			changed = true
		}
		if old[i].prim != "" && ns.prim != "" {
			ns.prim = old[i].prim
		}
		if old[i].xform != "" && ns.xform != "" {
			ns.xform = old[i].xform
		}
		old[i] = ns
	}
	va.uses[fn] = uses
	return changed
}

func eqLevels(a, b []tlevel) bool {
	if len(a) != len(b) {
		return false
	}
	for i := range a {
		if a[i] != b[i] {
			return false
		}
	}
	return true
}

// solve iterates all module functions with stringish parameters to a fixpoint.
func (va *validAnalysis) solve() int {
	var fns []*ssa.Function
	for _, fn := range va.p.SrcFuncs() {
		if fn.Parent() != nil {
			continue
		}
		has := false
		for _, prm := range fn.Params {
			if isStringish(prm.Type()) {
				has = true
			}
		}
		if has {
			fns = append(fns, fn)
		}
	}
	rounds := 0
	for changed := true; changed && rounds < 20; rounds++ {
		changed = false
		for _, fn := range fns {
			if va.recompute(fn) {
				changed = true
			}
		}
	}
	return rounds
}

// validAt: parameter pi of fn is known to satisfy ValidPath at instruction `at`.
func (va *validAnalysis) validAt(fn *ssa.Function, pi int, lv map[ssa.Value]tlevel, at ssa.Instruction) bool {
	facts := ssax.FactsAtInstr(at)
	// closures inherit the facts at their creation site
	for f := at.Parent(); f != nil && f.Parent() != nil; f = f.Parent() {
		if mc := makeClosureOf(f); mc != nil {
			facts = append(facts, ssax.FactsAtInstr(mc)...)
		}
	}
	for _, f := range facts {
		if va.factProvesValid(fn, pi, lv, f) {
			return true
		}
	}
	root := fn.Params[pi]
	if _, isSlice := root.Type().Underlying().(*types.Slice); isSlice {
		if va.allValidLoop(fn, pi, lv, at) {
			return true
		}
	}
	return false
}

func makeClosureOf(f *ssa.Function) *ssa.MakeClosure {
	par := f.Parent()
	if par == nil {
		return nil
	}
	var found *ssa.MakeClosure
	ssax.Instrs(par, func(ins ssa.Instruction) {
		if mc, ok := ins.(*ssa.MakeClosure); ok && mc.Fn == f {
			found = mc
		}
	})
	return found
}

func (va *validAnalysis) factProvesValid(fn *ssa.Function, pi int, lv map[ssa.Value]tlevel, f ssax.Fact) bool {
	// rule 2: ValidPath(x) true, x the unchanged root
	if cl, ok := f.Cond.(*ssa.Call); ok && f.Val && isValidPathCall(cl) {
		if lv[cl.Call.Args[0]] == tUnchanged {
			return true
		}
	}
	// rule 6: error of a rejecting call that received the root unchanged is nil / is ErrNotExist
	var ev ssa.Value
	if x, eq, ok := ssax.NilTest(f.Cond); ok && eq == f.Val && ssax.IsErrorType(x.Type()) {
		ev = x
	}
	if e2, sent, ok := isErrorsIs(f.Cond); ok && f.Val && sent == "ErrNotExist" {
		ev = e2
	}
	if ev != nil {
		if c := callProducing(ev); c != nil && va.callRejects(c, lv) {
			return true
		}
	}
	// rule 8: memo hit: comma-ok of a Load(key) on a container all of whose insert keys are valid
	if ex, ok := f.Cond.(*ssa.Extract); ok && f.Val && ex.Index == 1 {
		if c, ok := ex.Tuple.(*ssa.Call); ok && ssax.CalleeIs(c, "sync", "(*Map).Load") && len(c.Call.Args) == 2 {
			key := c.Call.Args[1]
			if mi, ok := key.(*ssa.MakeInterface); ok {
				key = mi.X
			}
			if lv[key] == tUnchanged || lv[c.Call.Args[1]] == tUnchanged {
				if cls := lockClass(c.Call.Args[0]); cls != "" && va.memoInsertKeysValid(cls) {
					return true
				}
			}
		}
	}
	return false
}

// callRejects: call c received the root unchanged in a path position and answers invalid names with an error.
func (va *validAnalysis) callRejects(c *ssa.Call, lv map[ssa.Value]tlevel) bool {
	cc := c.Common()
	if cc.IsInvoke() {
		if !va.isFSIface(cc.Value.Type()) {
			return false
		}
		for _, a := range cc.Args {
			if isStringish(a.Type()) && lv[a] == tUnchanged {
				return true // A1
			}
		}
		return false
	}
	callee := cc.StaticCallee()
	if callee == nil || !va.p.InModule(callee) || callee.Blocks == nil {
		return false
	}
	sums := va.summary(callee)
	if debugReject {
		for i, a := range cc.Args {
			if i < len(sums) && sums[i] != nil {
				fmt.Printf("    callRejects %s arg %d level=%v reject=%v\n", fname(callee), i, lv[a], sums[i].reject)
			}
		}
	}
	for i, a := range cc.Args {
		if lv[a] == tUnchanged && i < len(sums) && sums[i] != nil && sums[i].reject {
			if _, isSlice := a.Type().Underlying().(*types.Slice); isSlice {
				continue
			}
			return true
		}
	}
	return false
}

// rejecting: every return of fn whose error may be nil happens where parameter pi is valid.
func (va *validAnalysis) rejecting(fn *ssa.Function, pi int, lv map[ssa.Value]tlevel) bool {
	eidx := errLikeIndex(fn.Signature)
	if eidx < 0 {
		return false
	}
	for _, r := range ssax.Returns(fn) {
		e := resolveSpilled(r.Results[eidx], r)
		if definitelyNonNilErr(e) {
			continue
		}
		if _, isAlloc := e.(*ssa.Alloc); isAlloc {
			continue // &PathError{...} returned as a typed pointer
		}
		// returning the error of a rejecting call on the unchanged root (possibly through nil-reflecting
		// wrappers): nil only if valid
		if va.nilOnlyIfValid(e, lv, 0) {
			continue
		}
		if !va.validAt(fn, pi, lv, r) {
			if debugReject {
				fmt.Printf("  reject(%s,%d) fails at return %s operand %s = %v\n", fname(fn), pi, va.p.Pos(r.Pos()), e.Name(), e)
			}
			return false
		}
	}
	return true
}

var debugReject = os.Getenv("HPFS_DEBUG_REJECT") != ""

func definitelyNonNilErr(e ssa.Value) bool {
	switch x := e.(type) {
	case *ssa.MakeInterface:
		return true
	case *ssa.Phi:
		for _, ed := range x.Edges {
			if !definitelyNonNilErr(ed) {
				return false
			}
		}
		return true
	}
	return false
}

// memoInsertKeysValid: every Store/LoadOrStore into the sync.Map field of class cls uses a key that is an
// unchanged parameter known valid at the insertion.
func (va *validAnalysis) memoInsertKeysValid(cls string) bool {
	if v, ok := va.memoKeys[cls]; ok {
		return v
	}
	va.memoKeys[cls] = true // optimistic for recursion
	okAll, any := true, false
	for _, fn := range va.p.SrcFuncs() {
		ssax.Instrs(fn, func(ins ssa.Instruction) {
			c, ok := ins.(*ssa.Call)
			if !ok || !(ssax.CalleeIs(c, "sync", "(*Map).Store") || ssax.CalleeIs(c, "sync", "(*Map).LoadOrStore")) {
				return
			}
			if lockClass(c.Call.Args[0]) != cls {
				return
			}
			any = true
			key := c.Call.Args[1]
			if mi, ok := key.(*ssa.MakeInterface); ok {
				key = mi.X
			}
			root := fn
			for root.Parent() != nil {
				root = root.Parent()
			}
			good := false
			for pi, prm := range root.Params {
				if !isStringish(prm.Type()) {
					continue
				}
				lv := va.levels(root, pi)
				if lv[key] == tUnchanged && va.validAt(root, pi, lv, c) {
					good = true
				}
			}
			if !good {
				okAll = false
			}
		})
	}
	va.memoKeys[cls] = okAll && any
	return okAll && any
}

// allValidLoop: rule 10 — `at` is dominated by the exit of a loop over the root slice whose body leaves the
// function when an element is not a valid path.
func (va *validAnalysis) allValidLoop(fn *ssa.Function, pi int, lv map[ssa.Value]tlevel, at ssa.Instruction) bool {
	for _, h := range at.Parent().Blocks {
		ifi, ok := h.Instrs[len(h.Instrs)-1].(*ssa.If)
		if !ok {
			continue
		}
		bo, ok := ifi.Cond.(*ssa.BinOp)
		if !ok || bo.Op != token.LSS {
			continue
		}
		lc, ok := bo.Y.(*ssa.Call)
		if !ok || !isLenCall(lc) || lv[lc.Call.Args[0]] != tUnchanged {
			continue
		}
		body, exit := h.Succs[0], h.Succs[1]
		if !exit.Dominates(at.Block()) || len(exit.Preds) != 1 {
			continue
		}
		// a ValidPath test on an element in the body, invalid edge returns, valid edge dominates every back edge
		for _, b := range at.Parent().Blocks {
			if !body.Dominates(b) {
				continue
			}
			gi, ok := b.Instrs[len(b.Instrs)-1].(*ssa.If)
			if !ok {
				continue
			}
			cnd, val := ssax.StripNot(gi.Cond, true)
			cl, ok := cnd.(*ssa.Call)
			if !ok || !isValidPathCall(cl) || lv[cl.Call.Args[0]] != tUnchanged {
				continue
			}
			validSucc, invalidSucc := b.Succs[0], b.Succs[1]
			if !val {
				validSucc, invalidSucc = invalidSucc, validSucc
			}
			if !leavesFunction(invalidSucc, h) {
				continue
			}
			okBack := true
			for _, pr := range h.Preds {
				if body.Dominates(pr) && !(validSucc.Dominates(pr)) {
					okBack = false
				}
			}
			if okBack {
				return true
			}
		}
	}
	return false
}

// leavesFunction: no path from b reaches header h.
func leavesFunction(b, h *ssa.BasicBlock) bool {
	seen := map[*ssa.BasicBlock]bool{}
	var walk func(x *ssa.BasicBlock) bool
	walk = func(x *ssa.BasicBlock) bool {
		if x == h {
			return false
		}
		if seen[x] {
			return true
		}
		seen[x] = true
		for _, s := range x.Succs {
			if !walk(s) {
				return false
			}
		}
		return true
	}
	return walk(b)
}

// isEntry: exported function or method (of an exported or unexported type) in an analysed package.
func isEntry(fn *ssa.Function) bool {
	if fn.Parent() != nil || fn.Object() == nil {
		return false
	}
	return fn.Object().Exported()
}

func sortedFuncs(m map[*ssa.Function][]useRec) []*ssa.Function {
	var out []*ssa.Function
	for f := range m {
		out = append(out, f)
	}
	sort.Slice(out, func(i, j int) bool { return fname(out[i]) < fname(out[j]) })
	return out
}

func skipPkgForNames(fn *ssa.Function) bool {
	pp := pkgPathOf(fn)
	return strings.HasSuffix(pp, "/fstest") || strings.Contains(pp, "/internal/assert") || strings.Contains(pp, "/examples")
}

// nilOnlyIfValid: error value e is nil only if the root is valid: it is the error of a rejecting call that received
// the root unchanged, or the result of a nil-reflecting wrapper applied to such an error, or a phi of these.
func (va *validAnalysis) nilOnlyIfValid(e ssa.Value, lv map[ssa.Value]tlevel, depth int) bool {
	if depth > 5 || e == nil {
		return false
	}
	if definitelyNonNilErr(e) {
		return true
	}
	if ph, ok := e.(*ssa.Phi); ok {
		for _, ed := range ph.Edges {
			if !va.nilOnlyIfValid(ed, lv, depth+1) {
				return false
			}
		}
		return true
	}
	c := callProducing(e)
	if c == nil {
		return false
	}
	if va.callRejects(c, lv) {
		return true
	}
	callee := ssax.StaticCallee(c)
	if callee == nil || !va.p.InModule(callee) || callee.Blocks == nil {
		return false
	}
	for _, k := range nilReflecting(callee) {
		if k < len(c.Call.Args) && va.nilOnlyIfValid(c.Call.Args[k], lv, depth+1) {
			return true
		}
	}
	return false
}

var nilReflectMemo = map[*ssa.Function][]int{}

// nilReflecting: indices of error parameters k such that fn returns a nil error only if parameter k is nil.
func nilReflecting(fn *ssa.Function) []int {
	if v, ok := nilReflectMemo[fn]; ok {
		return v
	}
	nilReflectMemo[fn] = nil
	eidx := ssax.ErrorResultIndex(fn.Signature)
	if eidx < 0 {
		return nil
	}
	var out []int
	for k, prm := range fn.Params {
		if !ssax.IsErrorType(prm.Type()) {
			continue
		}
		ok := true
		for _, r := range ssax.Returns(fn) {
			e := resolveSpilled(r.Results[eidx], r)
			if definitelyNonNilErr(e) || e == ssa.Value(prm) {
				continue
			}
			if ssax.IsNilConst(e) {
				if isNil, known := ssax.KnownNil(ssax.FactsAtInstr(r), prm); known && isNil {
					continue
				}
			}
			// nested nil-reflecting wrapper of the same parameter
			if c := callProducing(e); c != nil {
				if callee := ssax.StaticCallee(c); callee != nil && callee != fn && callee.Blocks != nil {
					nested := false
					for _, kk := range nilReflecting(callee) {
						if kk < len(c.Call.Args) && c.Call.Args[kk] == ssa.Value(prm) {
							nested = true
						}
					}
					if nested {
						continue
					}
				}
			}
			ok = false
		}
		if ok {
			out = append(out, k)
		}
	}
	nilReflectMemo[fn] = out
	return out
}

// directGate: callee applies the validity predicate to its parameter #ai itself (ValidPath(param)). A caller that
// hands it a transformed value has its name validated only after the transformation.
func directGate(callee *ssa.Function, ai int) bool {
	if callee == nil || callee.Blocks == nil || ai >= len(callee.Params) {
		return false
	}
	found := false
	ssax.Instrs(callee, func(ins ssa.Instruction) {
		cl, ok := ins.(*ssa.Call)
		if !ok || len(cl.Call.Args) != 1 {
			return
		}
		if c := ssax.StaticCallee(cl); c != nil && c.Name() == "ValidPath" && cl.Call.Args[0] == ssa.Value(callee.Params[ai]) {
			found = true
		}
	})
	return found
}
