// Package sens implements the thorough tier's seeded-variant sensitivity run: every catalogued single-site edit
// (mutants.json) and every confirmed sub-agent change (seeded/*/patch.diff) of a property is applied to a scratch
// copy of the repository outside /repo and /verif, the property's rules are run on that copy in a separate process,
// and the report must name the expected rule. This is static analysis of variants: nothing is executed.
package sens

import (
	"encoding/json"
	"fmt"
	"io"
	"os"
	"os/exec"
	"path/filepath"
	"sort"
	"strings"
	"sync"
)

type Mutant struct {
	Property string `json:"property"`
	File     string `json:"file"`
	Expect   string `json:"expect"`
	Old      string `json:"old"`
	New      string `json:"new"`
	What     string `json:"what"`
	// Patch, if set, names a unified diff under the verification directory that is applied instead of the
	// textual replacement (Reverse: applied backwards — the revert of a fix commit).
	Patch   string `json:"patch,omitempty"`
	Reverse bool   `json:"reverse,omitempty"`
}

type Result struct {
	Name    string `json:"name"`
	Kind    string `json:"kind"` // mutant | seeded
	Expect  string `json:"expect,omitempty"`
	Outcome string `json:"outcome"` // killed | missed | skipped
	Detail  string `json:"detail,omitempty"`
}

func copyTree(src, dst string) error {
	return filepath.Walk(src, func(p string, info os.FileInfo, err error) error {
		if err != nil {
			return err
		}
		rel, _ := filepath.Rel(src, p)
		if rel == ".git" || strings.HasPrefix(rel, ".git"+string(filepath.Separator)) {
			if info.IsDir() {
				return filepath.SkipDir
			}
			return nil
		}
		target := filepath.Join(dst, rel)
		if info.IsDir() {
			return os.MkdirAll(target, 0o755)
		}
		if !info.Mode().IsRegular() {
			return nil
		}
		in, err := os.Open(p)
		if err != nil {
			return err
		}
		defer in.Close()
		out, err := os.Create(target)
		if err != nil {
			return err
		}
		defer out.Close()
		_, err = io.Copy(out, in)
		return err
	})
}

// Run executes the sensitivity run for one property. self is the path of the checker binary.
func Run(self, property, repo, verif string) (results []Result, err error) {
	type variant struct {
		name, kind, expect string
		apply              func(dir string) (bool, string)
	}
	var vs []variant
	if b, e := os.ReadFile(filepath.Join(verif, "mutants.json")); e == nil {
		var ms []Mutant
		if e := json.Unmarshal(b, &ms); e != nil {
			return nil, fmt.Errorf("mutants.json: %w", e)
		}
		n := 0
		for _, m := range ms {
			if m.Property != property {
				continue
			}
			n++
			m := m
			vs = append(vs, variant{name: fmt.Sprintf("mutant#%d %s: %s", n, m.File, m.What), kind: "mutant", expect: m.Expect, apply: func(dir string) (bool, string) {
				if m.Patch != "" {
					args := []string{"apply", "--whitespace=nowarn"}
					if m.Reverse {
						args = append(args, "-R")
					}
					cmd := exec.Command("git", append(args, filepath.Join(verif, m.Patch))...)
					cmd.Dir = dir
					if out, e := cmd.CombinedOutput(); e != nil {
						return false, "patch no longer applies: " + strings.TrimSpace(string(out))
					}
					return true, ""
				}
				fp := filepath.Join(dir, m.File)
				src, e := os.ReadFile(fp)
				if e != nil {
					return false, "file missing"
				}
				if !strings.Contains(string(src), m.Old) {
					return false, "pattern no longer present in the source"
				}
				return os.WriteFile(fp, []byte(strings.Replace(string(src), m.Old, m.New, 1)), 0o644) == nil, ""
			}})
		}
	}
	seeds, _ := filepath.Glob(filepath.Join(verif, "seeded", property+"-*", "meta.json"))
	sort.Strings(seeds)
	for _, mf := range seeds {
		b, e := os.ReadFile(mf)
		if e != nil {
			continue
		}
		var meta struct {
			Seed   string `json:"seed"`
			Caught bool   `json:"caught_by_own_property"`
		}
		if json.Unmarshal(b, &meta) != nil || !meta.Caught {
			continue // recorded as a miss in DESIGN.md; not an expectation
		}
		patch := filepath.Join(filepath.Dir(mf), "patch.diff")
		vs = append(vs, variant{name: "seeded " + meta.Seed, kind: "seeded", apply: func(dir string) (bool, string) {
			cmd := exec.Command("git", "apply", "--whitespace=nowarn", patch)
			cmd.Dir = dir
			if out, e := cmd.CombinedOutput(); e != nil {
				return false, "patch no longer applies: " + strings.TrimSpace(string(out))
			}
			return true, ""
		}})
	}
	// behaviour-preserving variants (/verif/neutral/*.diff): the property's check must stay silent on every one of them
	neutrals, _ := filepath.Glob(filepath.Join(verif, "neutral", "*.diff"))
	sort.Strings(neutrals)
	for _, nf := range neutrals {
		nf := nf
		vs = append(vs, variant{name: "neutral " + filepath.Base(nf), kind: "neutral", apply: func(dir string) (bool, string) {
			cmd := exec.Command("git", "apply", "--whitespace=nowarn", nf)
			cmd.Dir = dir
			if out, e := cmd.CombinedOutput(); e != nil {
				return false, "patch no longer applies: " + strings.TrimSpace(string(out))
			}
			return true, ""
		}})
	}
	results = make([]Result, len(vs))
	sem := make(chan struct{}, 6)
	var wg sync.WaitGroup
	for i, v := range vs {
		wg.Add(1)
		go func(i int, v variant) {
			defer wg.Done()
			sem <- struct{}{}
			defer func() { <-sem }()
			r := Result{Name: v.name, Kind: v.kind, Expect: v.expect}
			defer func() { results[i] = r }()
			dir, e := os.MkdirTemp("", "hpfs-variant-")
			if e != nil {
				r.Outcome, r.Detail = "skipped", e.Error()
				return
			}
			defer os.RemoveAll(dir)
			vv, e := os.MkdirTemp("", "hpfs-variant-verif-")
			if e != nil {
				r.Outcome, r.Detail = "skipped", e.Error()
				return
			}
			defer os.RemoveAll(vv)
			if e := copyTree(repo, dir); e != nil {
				r.Outcome, r.Detail = "skipped", "copy failed: "+e.Error()
				return
			}
			if ok, why := v.apply(dir); !ok {
				r.Outcome, r.Detail = "skipped", why
				return
			}
			if b, e := os.ReadFile(filepath.Join(verif, "reference_funcs.json")); e == nil {
				_ = os.WriteFile(filepath.Join(vv, "reference_funcs.json"), b, 0o644)
			}
			if b, e := os.ReadFile(filepath.Join(verif, "known_findings.json")); e == nil {
				_ = os.WriteFile(filepath.Join(vv, "known_findings.json"), b, 0o644)
			}
			_ = os.MkdirAll(filepath.Join(vv, "checker"), 0o755)
			_ = os.Symlink(filepath.Join(verif, "checker", "fixtures"), filepath.Join(vv, "checker", "fixtures"))
			cmd := exec.Command(self, "-property", property, "-tier", "quick", "-repo", dir, "-verif", vv)
			cmd.Env = append(os.Environ(), "VERIF_TIER=quick", "GOMAXPROCS=3")
			out, runErr := cmd.CombinedOutput()
			text := string(out)
			if v.kind == "neutral" {
				switch {
				case strings.Contains(text, "cannot load"):
					r.Outcome, r.Detail = "skipped", "variant does not type-check"
				case runErr == nil && !strings.Contains(text, "VIOLATION"):
					r.Outcome = "silent"
				default:
					r.Outcome = "false-alarm"
					for _, l := range strings.Split(text, "\n") {
						if strings.HasPrefix(l, "  rule ") || strings.HasPrefix(l, "  checker failure") {
							r.Detail = strings.TrimSpace(l)
							break
						}
					}
				}
				return
			}
			switch {
			case strings.Contains(text, "cannot load"):
				r.Outcome, r.Detail = "skipped", "variant does not type-check"
			case v.expect != "" && (strings.Contains(text, "rule "+v.expect+" violated") || strings.Contains(text, "rule "+v.expect+" undecided")):
				r.Outcome = "killed"
			case v.expect == "" && strings.Contains(text, "\n  rule R"):
				r.Outcome = "killed"
			default:
				r.Outcome = "missed"
				lines := strings.Split(strings.TrimSpace(text), "\n")
				r.Detail = lines[len(lines)-1]
			}
		}(i, v)
	}
	wg.Wait()
	return results, nil
}
