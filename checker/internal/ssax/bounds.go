package ssax

import (
	"go/token"
	"math"

	"golang.org/x/tools/go/ssa"
)

// Term is a symbol or an integer constant in a difference constraint.
type Term struct {
	Sym     string
	Const   int64
	IsConst bool
}

// Canon maps an SSA integer value to a Term (ok=false: opaque, gets its own symbol).
type Canon func(v ssa.Value) (Term, bool)

const inf = math.MaxInt64 / 4

// Bounds is a closed set of difference constraints x - y <= c (Floyd–Warshall over few symbols).
type Bounds struct {
	idx map[string]int
	d   [][]int64
}

// NewBounds builds the constraint closure from the comparison facts.
func NewBounds(facts []Fact, canon Canon) *Bounds {
	b := &Bounds{idx: map[string]int{"0": 0}}
	type con struct {
		x, y Term
		c    int64
	}
	var cons []con
	add := func(x, y Term, c int64) { cons = append(cons, con{x, y, c}) }
	for _, f := range facts {
		bo, ok := f.Cond.(*ssa.BinOp)
		if !ok {
			continue
		}
		op := bo.Op
		if !f.Val {
			switch op {
			case token.LSS:
				op = token.GEQ
			case token.LEQ:
				op = token.GTR
			case token.GTR:
				op = token.LEQ
			case token.GEQ:
				op = token.LSS
			case token.EQL:
				op = token.NEQ
			case token.NEQ:
				op = token.EQL
			default:
				continue
			}
		}
		cf := f.Canon(canon)
		x, okx := cf(bo.X)
		y, oky := cf(bo.Y)
		if !okx || !oky {
			continue
		}
		switch op {
		case token.LSS: // x < y : x - y <= -1
			add(x, y, -1)
		case token.LEQ:
			add(x, y, 0)
		case token.GTR: // x > y : y - x <= -1
			add(y, x, -1)
		case token.GEQ:
			add(y, x, 0)
		case token.EQL:
			add(x, y, 0)
			add(y, x, 0)
		}
	}
	node := func(t Term) int {
		if t.IsConst {
			return 0
		}
		if i, ok := b.idx[t.Sym]; ok {
			return i
		}
		i := len(b.idx)
		b.idx[t.Sym] = i
		return i
	}
	type edge struct {
		i, j int
		c    int64
	}
	var edges []edge
	for _, cn := range cons {
		// x - y <= c with constants folded into the zero node: (x.sym + x.const?) – terms are pure
		// symbols or pure constants: sym - K <= c  ==> sym - 0 <= c+K ; K - sym <= c ==> 0 - sym <= c-K
		i, j, c := node(cn.x), node(cn.y), cn.c
		if cn.x.IsConst {
			c -= cn.x.Const
		}
		if cn.y.IsConst {
			c += cn.y.Const
		}
		edges = append(edges, edge{i, j, c})
	}
	n := len(b.idx)
	b.d = make([][]int64, n)
	for i := range b.d {
		b.d[i] = make([]int64, n)
		for j := range b.d[i] {
			if i != j {
				b.d[i][j] = inf
			}
		}
	}
	for _, e := range edges {
		if e.c < b.d[e.i][e.j] {
			b.d[e.i][e.j] = e.c
		}
	}
	for k := 0; k < n; k++ {
		for i := 0; i < n; i++ {
			for j := 0; j < n; j++ {
				if b.d[i][k] < inf && b.d[k][j] < inf && b.d[i][k]+b.d[k][j] < b.d[i][j] {
					b.d[i][j] = b.d[i][k] + b.d[k][j]
				}
			}
		}
	}
	return b
}

// Assert adds the constraint x - y <= c and re-closes.
func (b *Bounds) Assert(x, y Term, c int64) {
	node := func(t Term) int {
		if t.IsConst {
			return 0
		}
		if i, ok := b.idx[t.Sym]; ok {
			return i
		}
		i := len(b.idx)
		b.idx[t.Sym] = i
		for r := range b.d {
			b.d[r] = append(b.d[r], inf)
		}
		row := make([]int64, i+1)
		for j := range row {
			row[j] = inf
		}
		row[i] = 0
		b.d = append(b.d, row)
		return i
	}
	i, j := node(x), node(y)
	if x.IsConst {
		c -= x.Const
	}
	if y.IsConst {
		c += y.Const
	}
	if i == j {
		return
	}
	if c < b.d[i][j] {
		b.d[i][j] = c
	}
	n := len(b.d)
	for k := 0; k < n; k++ {
		for a := 0; a < n; a++ {
			for e := 0; e < n; e++ {
				if b.d[a][k] < inf && b.d[k][e] < inf && b.d[a][k]+b.d[k][e] < b.d[a][e] {
					b.d[a][e] = b.d[a][k] + b.d[k][e]
				}
			}
		}
	}
}

// Sum records that s = a + t: adds a <= s when 0 <= t is entailed and t <= s when 0 <= a is entailed.
func (b *Bounds) Sum(s, a, t Term) {
	zero := Term{IsConst: true}
	if b.LE(zero, t, 0) {
		b.Assert(a, s, 0)
	}
	if b.LE(zero, a, 0) {
		b.Assert(t, s, 0)
	}
	// strictness: t >= 1 => a + 1 <= s
	if b.LE(Term{IsConst: true, Const: 1}, t, 0) {
		b.Assert(a, s, -1)
	}
}

// LE reports whether x - y <= c is entailed.
func (b *Bounds) LE(x, y Term, c int64) bool {
	if x.IsConst && y.IsConst {
		return x.Const-y.Const <= c
	}
	i, oki := 0, true
	j, okj := 0, true
	if !x.IsConst {
		i, oki = b.idx[x.Sym]
	}
	if !y.IsConst {
		j, okj = b.idx[y.Sym]
	}
	if !x.IsConst && !y.IsConst && x.Sym == y.Sym {
		return 0 <= c
	}
	if !oki || !okj {
		return false
	}
	if x.IsConst {
		c -= x.Const
	}
	if y.IsConst {
		c += y.Const
	}
	return b.d[i][j] <= c
}

// StripIntConv removes integer conversions.
func StripIntConv(v ssa.Value) ssa.Value {
	for {
		switch x := v.(type) {
		case *ssa.Convert:
			v = x.X
		case *ssa.ChangeType:
			v = x.X
		default:
			return v
		}
	}
}

// Diff records that d = a - t: adds d <= a when 0 <= t is entailed and 0 <= d when t <= a is entailed.
func (b *Bounds) Diff(d, a, t Term) {
	zero := Term{IsConst: true}
	if b.LE(zero, t, 0) {
		b.Assert(d, a, 0)
	}
	if b.LE(t, a, 0) {
		b.Assert(zero, d, 0)
	}
}

// Couple records that s = x + t and d = a - t for the same t, hence s - a = x - d: every entailed bound on one
// difference is asserted for the other (x < a - t  <=>  x + t < a).
func (b *Bounds) Couple(s, x, d, a Term) {
	get := func(p, q Term) (int64, bool) {
		if p.IsConst || q.IsConst {
			return 0, false
		}
		i, oki := b.idx[p.Sym]
		j, okj := b.idx[q.Sym]
		if !oki || !okj || b.d[i][j] >= inf {
			return 0, false
		}
		return b.d[i][j], true
	}
	if c, ok := get(x, d); ok {
		b.Assert(s, a, c)
	}
	if c, ok := get(d, x); ok {
		b.Assert(a, s, c)
	}
	if c, ok := get(s, a); ok {
		b.Assert(x, d, c)
	}
	if c, ok := get(a, s); ok {
		b.Assert(d, x, c)
	}
}
