package ssax

import (
	"go/token"
	"go/types"
	"sort"
	"strings"

	"golang.org/x/tools/go/ssa"
)

// AccessPath renders a heap access path for a value ("b.mu", "t.store.mu"); "" if unknown.
func AccessPath(v ssa.Value) string {
	switch x := v.(type) {
	case *ssa.Parameter:
		return x.Name()
	case *ssa.FreeVar:
		return x.Name()
	case *ssa.FieldAddr:
		b := AccessPath(x.X)
		if b == "" {
			return ""
		}
		return b + "." + FieldName(x)
	case *ssa.Field:
		b := AccessPath(x.X)
		if b == "" {
			return ""
		}
		st, ok := x.X.Type().Underlying().(*types.Struct)
		if !ok {
			return ""
		}
		return b + "." + st.Field(x.Field).Name()
	case *ssa.UnOp:
		if x.Op == token.MUL {
			return AccessPath(x.X)
		}
	case *ssa.Alloc:
		if x.Comment != "" {
			return x.Comment
		}
		return x.Name()
	case *ssa.Global:
		return x.Name()
	case *ssa.ChangeType:
		return AccessPath(x.X)
	case *ssa.Convert:
		return AccessPath(x.X)
	}
	return ""
}

// LockOp classifies a call as a mutex operation.
type LockOp int

const (
	NoLock LockOp = iota
	OpLock
	OpUnlock
	OpRLock
	OpRUnlock
)

// MutexOp classifies call c; returns the operation and the mutex access path.
func MutexOp(c ssa.CallInstruction) (LockOp, string) {
	fn := StaticCallee(c)
	if fn == nil || fn.Pkg == nil || fn.Pkg.Pkg.Path() != "sync" {
		return NoLock, ""
	}
	var op LockOp
	switch relName(fn) {
	case "(*Mutex).Lock", "(*RWMutex).Lock":
		op = OpLock
	case "(*Mutex).Unlock", "(*RWMutex).Unlock":
		op = OpUnlock
	case "(*RWMutex).RLock":
		op = OpRLock
	case "(*RWMutex).RUnlock":
		op = OpRUnlock
	default:
		return NoLock, ""
	}
	args := c.Common().Args
	if len(args) == 0 {
		return NoLock, ""
	}
	return op, AccessPath(args[0])
}

// LockSet is a set of held locks: key = access path, value 'W' or 'R'.
type LockSet map[string]byte

func (l LockSet) clone() LockSet {
	o := LockSet{}
	for k, v := range l {
		o[k] = v
	}
	return o
}

func (l LockSet) String() string {
	var ks []string
	for k, v := range l {
		ks = append(ks, k+":"+string(v))
	}
	sort.Strings(ks)
	return "{" + strings.Join(ks, ",") + "}"
}

func meet(a, b LockSet, must bool) LockSet {
	o := LockSet{}
	if must {
		for k, v := range a {
			if w, ok := b[k]; ok {
				if v == 'R' || w == 'R' {
					o[k] = 'R'
				} else {
					o[k] = 'W'
				}
			}
		}
		return o
	}
	for k, v := range a {
		o[k] = v
	}
	for k, v := range b {
		if _, ok := o[k]; !ok {
			o[k] = v
		}
	}
	return o
}

func equalLS(a, b LockSet) bool {
	if len(a) != len(b) {
		return false
	}
	for k, v := range a {
		if b[k] != v {
			return false
		}
	}
	return true
}

// Locksets computes, for every instruction of fn, the set of locks held *before* it.
// must=true gives the must-held set (intersection at joins), else may-held (union).
// entry is the lockset on function entry. Deferred unlocks release at function exit only.
func Locksets(fn *ssa.Function, must bool, entry LockSet) map[ssa.Instruction]LockSet {
	in := map[*ssa.BasicBlock]LockSet{}
	out := map[*ssa.BasicBlock]LockSet{}
	res := map[ssa.Instruction]LockSet{}
	if len(fn.Blocks) == 0 {
		return res
	}
	if entry == nil {
		entry = LockSet{}
	}
	visited := map[*ssa.BasicBlock]bool{}
	work := []*ssa.BasicBlock{fn.Blocks[0]}
	in[fn.Blocks[0]] = entry.clone()
	for len(work) > 0 {
		b := work[0]
		work = work[1:]
		cur := in[b].clone()
		for _, ins := range b.Instrs {
			res[ins] = cur.clone()
			if c, ok := ins.(*ssa.Call); ok {
				op, ap := MutexOp(c)
				if ap == "" && op != NoLock {
					ap = "?" + c.Name()
				}
				switch op {
				case OpLock:
					cur[ap] = 'W'
				case OpRLock:
					cur[ap] = 'R'
				case OpUnlock, OpRUnlock:
					delete(cur, ap)
				}
			}
		}
		first := !visited[b]
		visited[b] = true
		if !first && equalLS(out[b], cur) {
			continue
		}
		out[b] = cur
		for _, s := range b.Succs {
			var n LockSet
			if old, ok := in[s]; ok {
				n = meet(old, cur, must)
				if equalLS(n, old) && visited[s] {
					continue
				}
			} else {
				n = cur.clone()
			}
			in[s] = n
			work = append(work, s)
		}
	}
	return res
}
