package ssax

import (
	"go/token"

	"golang.org/x/tools/go/ssa"
)

// Nilness of a value on a path.
type Nilness int

const (
	NilUnknown Nilness = iota
	IsNil
	NonNil
)

// PathState is the abstract state carried along an enumerated path.
type PathState struct {
	Blocks []*ssa.BasicBlock
	nil_   map[ssa.Value]Nilness
	alias  map[ssa.Value]ssa.Value  // phi -> incoming value on this path
	bools  map[ssa.Value]bool       // known boolean values (conditions decided earlier on the path)
	cells  map[*ssa.Alloc]ssa.Value // last value stored into a local cell on this path
	// lastLoad: the latest load of a cell that is not tracked in cells (it escapes, e.g. into a closure), valid until
	// the next instruction that could write it (any call, store, send…)
	lastLoad map[*ssa.Alloc]ssa.Value
	// Counts is free for the client: per-path counters/marks, copied at every branch.
	Counts map[string]int
}

func (s *PathState) clone() *PathState {
	n := &PathState{Blocks: append([]*ssa.BasicBlock{}, s.Blocks...), nil_: map[ssa.Value]Nilness{}, alias: map[ssa.Value]ssa.Value{}, bools: map[ssa.Value]bool{}, cells: map[*ssa.Alloc]ssa.Value{}, lastLoad: map[*ssa.Alloc]ssa.Value{}, Counts: map[string]int{}}
	for k, v := range s.lastLoad {
		n.lastLoad[k] = v
	}
	for k, v := range s.Counts {
		n.Counts[k] = v
	}
	for k, v := range s.nil_ {
		n.nil_[k] = v
	}
	for k, v := range s.alias {
		n.alias[k] = v
	}
	for k, v := range s.bools {
		n.bools[k] = v
	}
	for k, v := range s.cells {
		n.cells[k] = v
	}
	return n
}

// Resolve follows phi aliases, cell loads and trivial wrappers on this path.
func (s *PathState) Resolve(v ssa.Value) ssa.Value {
	for i := 0; i < 32; i++ {
		if a, ok := s.alias[v]; ok {
			v = a
			continue
		}
		switch x := v.(type) {
		case *ssa.ChangeInterface:
			v = x.X
			continue
		case *ssa.ChangeType:
			v = x.X
			continue
		case *ssa.UnOp:
			if x.Op == token.MUL {
				if a, ok := x.X.(*ssa.Alloc); ok {
					if cv, ok := s.alias[x]; ok {
						v = cv
						continue
					}
					_ = a
				}
			}
		}
		return v
	}
	return v
}

// SetNil records nil-ness of v (after resolution).
func (s *PathState) SetNil(v ssa.Value, n Nilness) { s.nil_[s.Resolve(v)] = n }

// NilOf returns the nil-ness of v on this path.
func (s *PathState) NilOf(v ssa.Value) Nilness {
	v = s.Resolve(v)
	if IsNilConst(v) {
		return IsNil
	}
	switch x := v.(type) {
	case *ssa.MakeInterface:
		// an interface made from a concrete non-pointer/pointer value: non-nil interface
		_ = x
		return NonNil
	case *ssa.Alloc:
		return NonNil
	}
	if n, ok := s.nil_[v]; ok {
		return n
	}
	return NilUnknown
}

// PathHooks customises enumeration.
type PathHooks struct {
	// Call is invoked for every call instruction met on the path (in order); it may set facts.
	Instr func(s *PathState, ins ssa.Instruction)
	// EvalCond may decide a condition that the built-in nil/bool evaluation cannot (return known=false otherwise).
	EvalCond func(s *PathState, cond ssa.Value) (val bool, known bool)
	// Branch is told about every branch taken with an undecided condition, so it can record facts.
	Branch func(s *PathState, cond ssa.Value, taken bool)
	// End is called at every Return (or Panic if IncludePanics).
	End func(s *PathState, last ssa.Instruction)
	// MaxPaths caps the enumeration (default 4096).
	MaxPaths int
}

// EnumPaths enumerates acyclic paths (each block at most twice) from `from` (block, instruction index)
// to function exits, pruning branches whose condition is decided by the nil/bool facts.
// Returns false if the path cap was exceeded.
func EnumPaths(fn *ssa.Function, from *ssa.BasicBlock, fromIdx int, init *PathState, h PathHooks) bool {
	if h.MaxPaths == 0 {
		h.MaxPaths = 4096
	}
	if init == nil {
		init = NewPathState()
	}
	count := 0
	complete := true
	var walk func(b *ssa.BasicBlock, idx int, s *PathState, visits map[*ssa.BasicBlock]int)
	walk = func(b *ssa.BasicBlock, idx int, s *PathState, visits map[*ssa.BasicBlock]int) {
		if !complete {
			return
		}
		s.Blocks = append(s.Blocks, b)
		for i := idx; i < len(b.Instrs); i++ {
			ins := b.Instrs[i]
			switch x := ins.(type) {
			case *ssa.Store:
				if a, ok := x.Addr.(*ssa.Alloc); ok {
					s.cells[a] = s.Resolve(x.Val)
				}
			case *ssa.UnOp:
				if x.Op == token.MUL {
					if a, ok := x.X.(*ssa.Alloc); ok {
						if cv, ok := s.cells[a]; ok {
							s.alias[x] = cv
						} else if prev, ok := s.lastLoad[a]; ok {
							// a second load of a shared cell with nothing in between that could write it reads the same value
							s.alias[x] = prev
						} else {
							s.lastLoad[a] = x
						}
					}
				}
			}
			switch ins.(type) {
			case ssa.CallInstruction, *ssa.Store, *ssa.Send, *ssa.MapUpdate, *ssa.Select:
				if len(s.lastLoad) > 0 {
					s.lastLoad = map[*ssa.Alloc]ssa.Value{}
				}
			}
			if h.Instr != nil {
				h.Instr(s, ins)
			}
			switch x := ins.(type) {
			case *ssa.Return:
				count++
				if count > h.MaxPaths {
					complete = false
					return
				}
				if h.End != nil {
					h.End(s, x)
				}
				return
			case *ssa.Panic:
				return
			case *ssa.If:
				val, known := evalCond(s, x.Cond, h)
				for k, succ := range b.Succs {
					taken := k == 0
					if known && taken != val {
						continue
					}
					if visits[succ] >= 2 {
						continue
					}
					ns := s.clone()
					if !known {
						recordBranch(ns, x.Cond, taken)
						if h.Branch != nil {
							h.Branch(ns, ns.Resolve(x.Cond), taken)
						}
					}
					if visits[succ] >= 1 {
						forgetLoop(ns, succ)
					}
					enter(ns, b, succ)
					nv := map[*ssa.BasicBlock]int{}
					for kk, vv := range visits {
						nv[kk] = vv
					}
					nv[succ]++
					walk(succ, 0, ns, nv)
				}
				return
			case *ssa.Jump:
				succ := b.Succs[0]
				if visits[succ] >= 2 {
					return
				}
				if visits[succ] >= 1 {
					forgetLoop(s, succ)
				}
				enter(s, b, succ)
				visits[succ]++
				walk(succ, 0, s, visits)
				return
			}
		}
	}
	v := map[*ssa.BasicBlock]int{from: 1}
	walk(from, fromIdx, init.clone(), v)
	return complete
}

// NewPathState returns an empty state.
func NewPathState() *PathState {
	return &PathState{nil_: map[ssa.Value]Nilness{}, alias: map[ssa.Value]ssa.Value{}, bools: map[ssa.Value]bool{}, cells: map[*ssa.Alloc]ssa.Value{}, lastLoad: map[*ssa.Alloc]ssa.Value{}, Counts: map[string]int{}}
}

// enter binds the phis of succ for the edge pred->succ.
func enter(s *PathState, pred, succ *ssa.BasicBlock) {
	idx := -1
	for i, p := range succ.Preds {
		if p == pred {
			idx = i
			break
		}
	}
	if idx < 0 {
		return
	}
	// parallel assignment: compute all incoming values first
	type bind struct {
		phi *ssa.Phi
		v   ssa.Value
	}
	var binds []bind
	for _, ins := range succ.Instrs {
		phi, ok := ins.(*ssa.Phi)
		if !ok {
			break
		}
		binds = append(binds, bind{phi, s.Resolve(phi.Edges[idx])})
	}
	for _, b := range binds {
		s.alias[b.phi] = b.v
		delete(s.nil_, b.phi)
		delete(s.bools, b.phi)
	}
}

func evalCond(s *PathState, cond ssa.Value, h PathHooks) (bool, bool) {
	cond = s.Resolve(cond)
	c, flip := StripNot(cond, true)
	c = s.Resolve(c)
	if k, ok := c.(*ssa.Const); ok && k.Value != nil {
		if b, ok := constBool(k); ok {
			return b == flip, true
		}
	}
	if v, ok := s.bools[c]; ok {
		return v == flip, true
	}
	if x, eq, ok := NilTest(c); ok {
		switch s.NilOf(x) {
		case IsNil:
			return eq == flip, true
		case NonNil:
			return (!eq) == flip, true
		}
	}
	if h.EvalCond != nil {
		if v, known := h.EvalCond(s, c); known {
			return v == flip, true
		}
	}
	return false, false
}

func constBool(k *ssa.Const) (bool, bool) {
	if k.Value == nil {
		return false, false
	}
	s := k.Value.String()
	if s == "true" {
		return true, true
	}
	if s == "false" {
		return false, true
	}
	return false, false
}

func recordBranch(s *PathState, cond ssa.Value, taken bool) {
	cond = s.Resolve(cond)
	c, val := StripNot(cond, taken)
	c = s.Resolve(c)
	s.bools[c] = val
	if x, eq, ok := NilTest(c); ok {
		if eq == val {
			s.SetNil(x, IsNil)
		} else {
			s.SetNil(x, NonNil)
		}
	}
}

// BoolOf returns a boolean fact recorded on the path.
func (s *PathState) BoolOf(v ssa.Value) (bool, bool) {
	b, ok := s.bools[s.Resolve(v)]
	return b, ok
}

// SetBool records a boolean fact.
func (s *PathState) SetBool(v ssa.Value, b bool) { s.bools[s.Resolve(v)] = b }

// forgetLoop drops facts about values defined in blocks dominated by header (they are recomputed
// on the next iteration and may differ).
func forgetLoop(s *PathState, header *ssa.BasicBlock) {
	for _, d := range header.Parent().Blocks {
		if !header.Dominates(d) {
			continue
		}
		for _, ins := range d.Instrs {
			if v, ok := ins.(ssa.Value); ok {
				delete(s.nil_, v)
				delete(s.bools, v)
				delete(s.alias, v)
			}
		}
	}
}
