// Package ssax holds small, shared SSA analyses: edge facts from dominating branches,
// condition normalisation, callee resolution, cells (captured variables) and
// bounded path enumeration with nil-ness facts.
package ssax

import (
	"go/constant"
	"go/token"
	"go/types"
	"strings"

	"golang.org/x/tools/go/ssa"
)

// ---------- callee resolution ----------

// StaticCallee returns the statically known callee of a call instruction (nil for dynamic calls).
func StaticCallee(c ssa.CallInstruction) *ssa.Function {
	if c == nil {
		return nil
	}
	return c.Common().StaticCallee()
}

// CalleeIs reports whether the call statically calls function `name` of package `pkgPath`
// ("name" is "F" or "(*T).M"/"(T).M" in ssa's RelString form).
func CalleeIs(c ssa.CallInstruction, pkgPath, name string) bool {
	fn := StaticCallee(c)
	return FuncIs(fn, pkgPath, name)
}

// FuncIs matches a function by package path and name.
func FuncIs(fn *ssa.Function, pkgPath, name string) bool {
	if fn == nil {
		return false
	}
	if fn.Origin() != nil {
		fn = fn.Origin()
	}
	if fn.Pkg == nil {
		// methods of instantiated/ synthetic: fall back to object
		if obj := fn.Object(); obj != nil && obj.Pkg() != nil {
			return obj.Pkg().Path() == pkgPath && relName(fn) == name
		}
		return false
	}
	return fn.Pkg.Pkg.Path() == pkgPath && relName(fn) == name
}

func relName(fn *ssa.Function) string {
	if recv := fn.Signature.Recv(); recv != nil {
		t := recv.Type()
		ptr := ""
		if p, ok := t.(*types.Pointer); ok {
			t = p.Elem()
			ptr = "*"
		}
		if n, ok := t.(*types.Named); ok {
			return "(" + ptr + n.Obj().Name() + ")." + fn.Name()
		}
	}
	return fn.Name()
}

// InvokeMethod returns the interface method object of an invoke-mode call, or nil.
func InvokeMethod(c ssa.CallInstruction) *types.Func {
	if c == nil {
		return nil
	}
	cc := c.Common()
	if cc.IsInvoke() {
		return cc.Method
	}
	return nil
}

// CallName renders a call target for messages.
func CallName(c ssa.CallInstruction) string {
	cc := c.Common()
	if cc.IsInvoke() {
		return typeShort(cc.Value.Type()) + "." + cc.Method.Name()
	}
	if fn := cc.StaticCallee(); fn != nil {
		s := fn.String()
		s = strings.ReplaceAll(s, "github.com/hack-pad/hackpadfs/", "")
		s = strings.ReplaceAll(s, "github.com/hack-pad/hackpadfs", "hackpadfs")
		return s
	}
	if b, ok := cc.Value.(*ssa.Builtin); ok {
		return b.Name()
	}
	return "dynamic call " + cc.Value.Name()
}

func typeShort(t types.Type) string {
	s := types.TypeString(t, func(p *types.Package) string { return p.Name() })
	return s
}

// ---------- values ----------

// IsNilConst reports whether v is the nil constant.
func IsNilConst(v ssa.Value) bool {
	c, ok := v.(*ssa.Const)
	return ok && c.IsNil()
}

// ConstInt returns the integer value of a constant.
func ConstInt(v ssa.Value) (int64, bool) {
	c, ok := v.(*ssa.Const)
	if !ok || c.Value == nil {
		return 0, false
	}
	if c.Value.Kind() != constant.Int {
		return 0, false
	}
	i, ok := constant.Int64Val(c.Value)
	return i, ok
}

// ConstString returns the string value of a constant.
func ConstString(v ssa.Value) (string, bool) {
	c, ok := v.(*ssa.Const)
	if !ok || c.Value == nil || c.Value.Kind() != constant.String {
		return "", false
	}
	return constant.StringVal(c.Value), true
}

// Unwrap strips conversions/ChangeType/ChangeInterface/MakeInterface layers.
func Unwrap(v ssa.Value) ssa.Value {
	for {
		switch x := v.(type) {
		case *ssa.ChangeType:
			v = x.X
		case *ssa.Convert:
			v = x.X
		case *ssa.ChangeInterface:
			v = x.X
		case *ssa.MakeInterface:
			v = x.X
		default:
			return v
		}
	}
}

// GlobalLoad returns the global read by v (v = *Global), or nil.
func GlobalLoad(v ssa.Value) *ssa.Global {
	if u, ok := v.(*ssa.UnOp); ok && u.Op == token.MUL {
		if g, ok := u.X.(*ssa.Global); ok {
			return g
		}
	}
	return nil
}

// IsGlobalLoad reports whether v (after unwrapping interface conversions) loads pkg.name.
func IsGlobalLoad(v ssa.Value, pkgPath, name string) bool {
	g := GlobalLoad(Unwrap(v))
	if g == nil {
		g = GlobalLoad(v)
	}
	return g != nil && g.Pkg != nil && g.Pkg.Pkg.Path() == pkgPath && g.Name() == name
}

// FieldLoad decomposes v = *(&x.f): returns base x (pointer value) and field index.
func FieldLoad(v ssa.Value) (base ssa.Value, field int, ok bool) {
	switch u := v.(type) {
	case *ssa.UnOp:
		if u.Op != token.MUL {
			return nil, 0, false
		}
		if fa, ok := u.X.(*ssa.FieldAddr); ok {
			return fa.X, fa.Field, true
		}
	case *ssa.Field:
		return u.X, u.Field, true
	}
	return nil, 0, false
}

// FieldName returns the name of the field addressed by fa.
func FieldName(fa *ssa.FieldAddr) string {
	t := fa.X.Type().Underlying().(*types.Pointer).Elem().Underlying().(*types.Struct)
	return t.Field(fa.Field).Name()
}

// StructOfFieldAddr returns the named struct type a FieldAddr addresses into (or nil).
func StructOfFieldAddr(fa *ssa.FieldAddr) *types.Named {
	pt, ok := fa.X.Type().Underlying().(*types.Pointer)
	if !ok {
		return nil
	}
	n, _ := types.Unalias(pt.Elem()).(*types.Named)
	return n
}

// ---------- edge facts ----------

// Fact says: Cond evaluated to Val on the way to the point of interest.
type Fact struct {
	Cond ssa.Value
	Val  bool
	If   *ssa.If
	// Via and Subst are set on a fact imported from a guard helper (ImportGuards): Cond is a value of the callee, it
	// held where the callee returned a nil error, and Subst maps the callee's parameters to the arguments of Via.
	Via   *ssa.Call
	Subst map[ssa.Value]ssa.Value
}

// activeSubst is the substitution of the imported fact being canonicalised (set by Fact.Canon; analyses run on one
// goroutine).
var activeSubst map[ssa.Value]ssa.Value

// SubstValue maps a parameter of a guard helper to the argument it was called with, while a fact imported from that
// helper is being canonicalised; any other value is returned unchanged.
func SubstValue(v ssa.Value) ssa.Value {
	for i := 0; i < 4 && activeSubst != nil; i++ {
		a, ok := activeSubst[v]
		if !ok {
			break
		}
		v = a
	}
	return v
}

// Canon wraps canon so that, for an imported fact, the callee's parameters are read as the call's arguments.
func (f Fact) Canon(canon Canon) Canon {
	if f.Subst == nil {
		return canon
	}
	return func(v ssa.Value) (Term, bool) {
		prev := activeSubst
		activeSubst = f.Subst
		defer func() { activeSubst = prev }()
		return canon(v)
	}
}

// ImportGuards adds, for every fact "e == nil" where e is the error result of a static call to a function with a
// body that inModule accepts, the facts that hold at every return of that function whose error result may be nil
// (their intersection): a bounds check moved into a helper `if err := b.checkRange(lo, hi); err != nil { return }`
// guards the code after it exactly as the inlined comparisons did. One level of helpers is followed.
func ImportGuards(facts []Fact, inModule func(*ssa.Function) bool) []Fact {
	out := facts
	for _, f := range facts {
		if f.Subst != nil {
			continue
		}
		x, eq, ok := NilTest(f.Cond)
		if !ok || eq != f.Val || !IsErrorType(x.Type()) {
			continue
		}
		var call *ssa.Call
		eidx := 0
		switch y := x.(type) {
		case *ssa.Call:
			call = y
		case *ssa.Extract:
			call, _ = y.Tuple.(*ssa.Call)
			eidx = y.Index
		}
		if call == nil {
			continue
		}
		callee := StaticCallee(call)
		if callee == nil || callee.Blocks == nil || !inModule(callee) || len(callee.Params) != len(call.Call.Args) {
			continue
		}
		if ErrorResultIndex(callee.Signature) != eidx {
			continue
		}
		var common []Fact
		first := true
		sound := true
		for _, r := range Returns(callee) {
			e := r.Results[eidx]
			if definitelyNonNilError(e) {
				continue
			}
			if !IsNilConst(e) {
				// a variable: may be nil, and its block's facts are all we know
			}
			fs := FactsAt(r.Block())
			if first {
				common, first = fs, false
				continue
			}
			var keep []Fact
			for _, a := range common {
				for _, b := range fs {
					if a.Cond == b.Cond && a.Val == b.Val {
						keep = append(keep, a)
						break
					}
				}
			}
			common = keep
		}
		if first || !sound {
			continue
		}
		subst := map[ssa.Value]ssa.Value{}
		for i, prm := range callee.Params {
			subst[prm] = call.Call.Args[i]
		}
		for _, g := range common {
			out = append(out, Fact{Cond: g.Cond, Val: g.Val, If: g.If, Via: call, Subst: subst})
		}
	}
	return out
}

// definitelyNonNilError: e is built in place (a call of a constructor such as fmt.Errorf / errors.New, an allocated
// error struct, or an interface made from one).
func definitelyNonNilError(e ssa.Value) bool {
	switch x := e.(type) {
	case *ssa.MakeInterface:
		switch x.X.(type) {
		case *ssa.Alloc, *ssa.Call:
			return true
		}
		return false
	case *ssa.Call:
		if callee := StaticCallee(x); callee != nil && callee.Pkg != nil {
			switch callee.Pkg.Pkg.Path() + "." + callee.Name() {
			case "fmt.Errorf", "errors.New":
				return true
			}
		}
	}
	return false
}

// FactsAt returns the branch facts that hold on entry to block b: for every block D on the
// dominator chain of b that is entered only from its immediate dominator's If, the condition
// and the branch taken. Conditions are normalised (leading NOTs stripped).
func FactsAt(b *ssa.BasicBlock) []Fact {
	var out []Fact
	for d := b; d != nil; d = d.Idom() {
		p := d.Idom()
		if p == nil {
			break
		}
		if len(d.Preds) != 1 || d.Preds[0] != p {
			continue
		}
		ifi, ok := p.Instrs[len(p.Instrs)-1].(*ssa.If)
		if !ok {
			continue
		}
		val := p.Succs[0] == d
		if p.Succs[0] == p.Succs[1] {
			continue
		}
		c, v := StripNot(ifi.Cond, val)
		out = append(out, Fact{Cond: c, Val: v, If: ifi})
	}
	return out
}

// FactsAtInstr returns the facts holding at an instruction (facts of its block).
func FactsAtInstr(i ssa.Instruction) []Fact { return FactsAt(i.Block()) }

// StripNot removes leading boolean negations.
func StripNot(c ssa.Value, val bool) (ssa.Value, bool) {
	for {
		u, ok := c.(*ssa.UnOp)
		if !ok || u.Op != token.NOT {
			return c, val
		}
		c = u.X
		val = !val
	}
}

// NilTest decomposes cond into "x == nil" (eq=true) or "x != nil".
func NilTest(cond ssa.Value) (x ssa.Value, eq bool, ok bool) {
	b, isb := cond.(*ssa.BinOp)
	if !isb || (b.Op != token.EQL && b.Op != token.NEQ) {
		return nil, false, false
	}
	switch {
	case IsNilConst(b.Y):
		return b.X, b.Op == token.EQL, true
	case IsNilConst(b.X):
		return b.Y, b.Op == token.EQL, true
	}
	return nil, false, false
}

// KnownNil reports, from facts, whether v is known nil (isNil=true) or known non-nil.
func KnownNil(facts []Fact, v ssa.Value) (isNil bool, known bool) {
	for _, f := range facts {
		x, eq, ok := NilTest(f.Cond)
		if !ok || !SameValue(x, v) {
			continue
		}
		return eq == f.Val, true
	}
	return false, false
}

// SameValue compares two values modulo trivial wrappers and repeated loads of the same
// variable cell with no intervening store are NOT unified (no CSE) — only identity.
func SameValue(a, b ssa.Value) bool {
	if a == b {
		return true
	}
	return Unwrap(a) == Unwrap(b)
}

// CallCond: if cond is a call to pkg.name returns the call.
func CallCond(cond ssa.Value, pkgPath, name string) *ssa.Call {
	c, ok := cond.(*ssa.Call)
	if !ok {
		return nil
	}
	if CalleeIs(c, pkgPath, name) {
		return c
	}
	return nil
}

// Dominates reports whether instruction a dominates instruction b (same block: order).
func Dominates(a, b ssa.Instruction) bool {
	if a.Block() == b.Block() {
		for _, i := range a.Block().Instrs {
			if i == a {
				return true
			}
			if i == b {
				return false
			}
		}
		return false
	}
	return a.Block().Dominates(b.Block())
}

// ---------- cells (captured variables, named results) ----------

// CellStores returns every store to the Alloc cell (in its function and in closures that
// capture it), and whether the cell's address escapes in any other way.
func CellStores(a *ssa.Alloc) (stores []*ssa.Store, escapes bool) {
	var visit func(addr ssa.Value)
	seen := map[ssa.Value]bool{}
	visit = func(addr ssa.Value) {
		if seen[addr] {
			return
		}
		seen[addr] = true
		refs := addr.Referrers()
		if refs == nil {
			return
		}
		for _, r := range *refs {
			switch r := r.(type) {
			case *ssa.Store:
				if r.Addr == addr {
					stores = append(stores, r)
				} else {
					escapes = true
				}
			case *ssa.UnOp:
				// load
			case *ssa.MakeClosure:
				fn := r.Fn.(*ssa.Function)
				for i, b := range r.Bindings {
					if b == addr {
						visit(fn.FreeVars[i])
					}
				}
			case *ssa.DebugRef:
			default:
				escapes = true
			}
		}
	}
	visit(a)
	return
}

// ResolveFreeVar maps a FreeVar of a closure to the value bound at its (unique) MakeClosure.
func ResolveFreeVar(fv *ssa.FreeVar) ssa.Value {
	fn := fv.Parent()
	parent := fn.Parent()
	if parent == nil {
		return nil
	}
	idx := -1
	for i, f := range fn.FreeVars {
		if f == fv {
			idx = i
		}
	}
	if idx < 0 {
		return nil
	}
	var found ssa.Value
	n := 0
	for _, b := range parent.Blocks {
		for _, ins := range b.Instrs {
			if mc, ok := ins.(*ssa.MakeClosure); ok && mc.Fn == fn {
				found = mc.Bindings[idx]
				n++
			}
		}
	}
	if n == 1 {
		return found
	}
	return nil
}

// ---------- misc ----------

// Instrs iterates all instructions of fn.
func Instrs(fn *ssa.Function, f func(ssa.Instruction)) {
	for _, b := range fn.Blocks {
		for _, i := range b.Instrs {
			f(i)
		}
	}
}

// InstrsDeep iterates instructions of fn and all nested anonymous functions.
func InstrsDeep(fn *ssa.Function, f func(*ssa.Function, ssa.Instruction)) {
	Instrs(fn, func(i ssa.Instruction) { f(fn, i) })
	for _, a := range fn.AnonFuncs {
		InstrsDeep(a, f)
	}
}

// Returns lists the Return instructions of fn.
func Returns(fn *ssa.Function) []*ssa.Return {
	var out []*ssa.Return
	Instrs(fn, func(i ssa.Instruction) {
		if r, ok := i.(*ssa.Return); ok {
			if fn.Recover != nil && r.Block() == fn.Recover {
				return // synthetic block entered only after a recovered panic
			}
			out = append(out, r)
		}
	})
	return out
}

// ErrorType is the universe error type.
var ErrorType = types.Universe.Lookup("error").Type()

// IsErrorType reports whether t is exactly `error`.
func IsErrorType(t types.Type) bool { return types.Identical(t, ErrorType) }

// ErrorResultIndex returns the index of the last result of sig if it is `error`, else -1.
func ErrorResultIndex(sig *types.Signature) int {
	n := sig.Results().Len()
	if n == 0 {
		return -1
	}
	if IsErrorType(sig.Results().At(n - 1).Type()) {
		return n - 1
	}
	return -1
}

// ErrorValueOf returns the SSA value carrying the error result of call c (the call itself for
// single results, the Extract for tuples), or nil if that result is never read.
func ErrorValueOf(c *ssa.Call) ssa.Value {
	sig := c.Call.Signature()
	idx := ErrorResultIndex(sig)
	if idx < 0 {
		return nil
	}
	if sig.Results().Len() == 1 {
		if c.Referrers() == nil || len(*c.Referrers()) == 0 {
			return nil
		}
		return c
	}
	for _, r := range *c.Referrers() {
		if e, ok := r.(*ssa.Extract); ok && e.Index == idx {
			return e
		}
	}
	return nil
}

// ExtractOf returns the Extract #idx of a tuple-valued call (nil if not extracted).
func ExtractOf(c ssa.Value, idx int) *ssa.Extract {
	refs := c.Referrers()
	if refs == nil {
		return nil
	}
	for _, r := range *refs {
		if e, ok := r.(*ssa.Extract); ok && e.Index == idx {
			return e
		}
	}
	return nil
}

// HasRealReferrers reports whether v is used by anything other than DebugRef.
func HasRealReferrers(v ssa.Value) bool {
	refs := v.Referrers()
	if refs == nil {
		return false
	}
	for _, r := range *refs {
		if _, ok := r.(*ssa.DebugRef); !ok {
			return true
		}
	}
	return false
}
