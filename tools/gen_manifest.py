#!/usr/bin/env python3
"""Generates /verif/MANIFEST.json from tools/manifest_data.py (claimed checks + not_applicable)."""
import json, sys, os
sys.path.insert(0, os.path.dirname(__file__))
from manifest_data import CLAIMS, NOT_APPLICABLE, NOTES
BASE = json.load(open('/root/.vp/BASELINE.json'))
setup = ("cd /verif/checker && env -u GOWORK GOFLAGS=-mod=mod GOPROXY=off GOSUMDB=off GOTOOLCHAIN=local "
         "go build -o /verif/bin/hpfscheck ./cmd/hpfscheck")
checks = []
for pid in sorted(CLAIMS):
    c = CLAIMS[pid]
    checks.append({
        "property_id": pid,
        "quick_cmd": f"/verif/bin/hpfscheck -property {pid} -tier quick",
        "thorough_cmd": f"/verif/bin/hpfscheck -property {pid} -tier thorough",
        "evidence_file": f"/verif/evidence/{pid}.json",
        "replay_cmd_template": f"/verif/bin/hpfscheck -property {pid} -replay {{path}}",
        "engine": "hpfscheck",
        "level_claimed": {"category": "other", "text": c["text"], "design_ref": c.get("design_ref", "DESIGN.md §3 " + pid)},
        "level_note": c["note"],
        "technique": c["technique"],
    })
m = {
    "version": 1,
    "setup_cmd": setup,
    "hooks": {"guard": "verif", "enable": "none: static analysis reads /repo sources as data; no instrumentation exists",
              "baseline_off_cmd": BASE["cmd"], "source_commits": [], "add_only": True},
    "engines": [{"name": "hpfscheck", "path": "/verif/checker", "serves_properties": sorted(CLAIMS),
                 "kind_free_text": "repository-specific static analyser: go/packages + go/types + go/ssa (dominator edge facts, def-use, difference-constraint bounds, locksets, bounded path enumeration with nil facts) + VTA call graph, over linux, windows and js/wasm builds of /repo"}],
    "checks": checks,
    "notes": NOTES,
    "not_applicable": [{"property_id": k, "reason": v} for k, v in sorted(NOT_APPLICABLE.items())],
}
json.dump(m, open('/verif/MANIFEST.json', 'w'), indent=1)
print("checks:", len(checks), "not_applicable:", len(m["not_applicable"]))
