NOTES = ("All claims are level 'other': each check decides structural necessary conditions of its property from /repo's current "
         "source (type-checked, SSA) and never the behaviour itself; DESIGN.md §4 lists, per property, what is and is not claimed. "
         "Genuine defects found are repaired by 'fix:' commits in /repo or listed in /verif/known_findings.json.")
PENDING = "static rules for this property are designed (DESIGN.md §3) but not yet implemented in this revision; not claimed until they are"
CLAIMS = {
 "C08": {
  "text": "Decides for every package-level helper taking an FS or File (30+ functions, found by signature) and the unexported functions only they reach: on every path on which a fallible call's error is non-nil, the helper returns it, wraps it, hands it on, returns another definitely non-nil error, or consumes it through an enumerated idiom whose context is resolved through the call graph; and that the all-capability-assertions-failed path returns ErrNotImplemented in a *PathError/*LinkError or enters the fallback. This is the clause 'a helper never reports success for work that was not done'; equality of results across the 2^k capability subsets is NOT decided.",
  "note": "Trusted: go/types+go/ssa, the path enumeration (nil-ness facts only) and the enumerated idioms in drop.go; A1: dispatched methods return nil only when the work was done.",
  "technique": "static analysis: bounded path enumeration with nil-ness facts from each fallible call's error edge (error-propagation / dropped-error analysis), call-graph contexts for accepted idioms",
 },
 "C14": {
  "text": "Decides for packages keyvalue/mem: Commit results are never discarded and each element's Err is read (directly or by every caller of a forwarding function); every fallible call's error propagates on every failing path (fault injection at each store call index becomes following each error edge); a pointer/interface result that came with an error is never used; struct fields assigned together with an error are nil-tested before use; Transaction implementations store the store's error into the recorded result. The behavioural remainder (post-fault store view equals FS view, no hang) is NOT decided.",
  "note": "Trusted: go/types+go/ssa, path enumeration and idiom list; A1 for Store/FileRecord implementations; examples/s3 cannot be loaded offline and is out of scope.",
  "technique": "static analysis: dropped-error path analysis over SSA, def-use of Commit results, paired-field nil-guard rule",
 },
 "C16": {
  "text": "Decides for every io/fs.File implementation whose ReadDir(n) computes its own window (keyvalue.file, cache.dir): an io.EOF exit exists under n>0 and a cursor/length test that every nil-error path with n>0 passes; every listing slice has bounds entailed by guards on every phi alternative; every paging path stores the cursor and stored values depend on the old cursor or the listing length; no n>0 path returns an unwindowed listing; listing failure is wrapped in *PathError; by-name listings are sorted by construction (io/fs.ReadDir fallback, ReadDirFS implementations return from sorting sources). Exactly-once delivery across pages as a value-level statement and agreement with Stat are NOT decided.",
  "note": "Trusted: go/types+go/ssa and the rule code; assumes the cursor is never negative (A8; what is stored into it is checked) and stdlib ReadDir sorts (A2).",
  "technique": "static analysis: control-dependence facts, path enumeration with counters, difference-constraint entailment over phi alternatives, def-use",
 },
 "C18": {
  "text": "Decides for every Go-level keyvalue.Transaction implementation found by type (mem.transaction, keyvalue.unsafeSerialTransaction), on every path of Get/GetHandler/Set/SetHandler: exactly one result recorded and one id allocated (incl. the aborted path), recorded Op == returned id, store access only on the not-aborted edge, handler error flows into the recorded Err; Commit/Abort release the mutex the constructor left locked on every path and idempotently (sync.Once); Commit returns results in id order; every transaction begun in package keyvalue is committed or aborted on every path. These are the mechanisms behind 'one result per call, in order; store always released'; isolation between concurrent transactions and value-level Get-reflects-Set are NOT decided.",
  "note": "Trusted: go/types+go/ssa and the rule code. Assumes partial correctness (A6) and that names reaching setFileTxn were validated by callers (A7, checked separately under C04).",
  "technique": "static analysis: bounded path enumeration with per-path counters over SSA, dominator edge facts, lockset-at-return summaries, def-use",
 },
 "C17": {
  "text": "Decides that every dereference of a pointer field some method sets to nil (keyvalue.file.fileData, via own methods, unexported helpers and wrapper types) is dominated by a non-nil test whose failing edge returns an ErrClosed-class error; that every io/fs.File implementation has a closed mark written by Close (or delegates to an inner handle) which every other method consults; and that store write-backs reachable from handle mutators are conditional on the path still existing (currently a known finding). This is 'closed handles fail cleanly, never panic' as visible on every path; handle independence over histories is NOT decided.",
  "note": "Trusted: go/types+go/ssa and the rule code; closers are not called from sibling methods (checked).",
  "technique": "static analysis: contradiction rule (field nil-ed by one method, dereferenced by siblings) with dominator facts keyed by access path, error-class abstraction, call-graph reachability to store writes",
 },
 "C19": {
  "text": "Decides, for every Blob implementation found by type (blob.Bytes; idbblob.Blob under js/wasm), that every parameter-dependent slice/make bound is entailed by dominating guards (difference constraints), negatives are rejected with an error before any mutation, View/Slice select data[start:end], View aliases and Slice copies, no interface dispatch or re-locking under the blob mutex, data stores are followed by the atomic length mirror, and the typed-array blob never stores an unvalidated negative length. This is the part of 'errors not panics / never modifies / aliasing structure / Set terminates' that is visible on every path; byte-exact model equivalence over operation sequences is NOT decided.",
  "note": "Trusted: go/types+go/ssa of x/tools v0.29.0 and the rule code; assumes sequential reading of one receiver's length inside a method (A5), stdlib/JS-engine contracts (A2).",
  "technique": "static analysis: SSA dominator edge facts + difference-constraint closure for bounds, lockset dataflow, def-use shape rules, sibling comparison",
 },
}
NOT_APPLICABLE = {f"C{i:02d}": PENDING for i in range(1, 21) if f"C{i:02d}" not in CLAIMS}
