NOTES = ("All claims are level 'other': each check decides structural necessary conditions of its property from /repo's current "
         "source (type-checked, SSA) and never the behaviour itself; DESIGN.md §4 lists, per property, what is and is not claimed. "
         "Genuine defects found are repaired by 'fix:' commits in /repo or listed in /verif/known_findings.json.")
PENDING = "static rules for this property are designed (DESIGN.md §3) but not yet implemented in this revision; not claimed until they are"
CLAIMS = {
 "C19": {
  "text": "Decides, for every Blob implementation found by type (blob.Bytes; idbblob.Blob under js/wasm), that every parameter-dependent slice/make bound is entailed by dominating guards (difference constraints), negatives are rejected with an error before any mutation, View/Slice select data[start:end], View aliases and Slice copies, no interface dispatch or re-locking under the blob mutex, data stores are followed by the atomic length mirror, and the typed-array blob never stores an unvalidated negative length. This is the part of 'errors not panics / never modifies / aliasing structure / Set terminates' that is visible on every path; byte-exact model equivalence over operation sequences is NOT decided.",
  "note": "Trusted: go/types+go/ssa of x/tools v0.29.0 and the rule code; assumes sequential reading of one receiver's length inside a method (A5), stdlib/JS-engine contracts (A2).",
  "technique": "static analysis: SSA dominator edge facts + difference-constraint closure for bounds, lockset dataflow, def-use shape rules, sibling comparison",
 },
}
NOT_APPLICABLE = {f"C{i:02d}": PENDING for i in range(1, 21) if f"C{i:02d}" not in CLAIMS}
