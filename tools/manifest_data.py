NOTES = ("All claims are level 'other': each check decides structural necessary conditions of its property from /repo's current "
         "source (type-checked, SSA) and never the behaviour itself; DESIGN.md §4 lists, per property, what is and is not claimed. "
         "Genuine defects found are repaired by 'fix:' commits in /repo or listed in /verif/known_findings.json.")
PENDING = "static rules for this property are designed (DESIGN.md §3) but not yet implemented in this revision; not claimed until they are"
CLAIMS = {
 "C15": {
  "text": "Linearizability, race freedom in general and deadlock freedom over interleavings are not decidable with the static tooling present and are NOT claimed. Decided are two necessary conditions: a 14-line guarded-by table (blob byte slice under the blob mutex; counters/flags only via sync/atomic; the serial transaction's result map under its mutex; lazily loaded record fields written only in the matching sync.Once.Do closure and read only after it) and check-then-act atomicity of the key-value FS's mutating operations (look-ups and the resulting Set on one Transaction) — the latter fails for all seven operations and is recorded as known findings, one per operation, so a new split operation is still reported.",
  "note": "Trusted: go/types+go/ssa, lockset dataflow keyed by access path, the frozen table in c15.go (each line confirmed by reading). No alias analysis: a lock reached through an interface would be beyond it.",
  "technique": "static analysis: guarded-by table checked with must-lockset dataflow / atomic-only use / once-closure ownership; transaction-identity def-use",
 },
 "C20": {
  "text": "Whether the suite rejects each deviant file system is mutation adequacy over executions and is NOT claimed. Decided are properties of the suite's own code whose violation makes it blind: all 36 exported scenarios are registered in a runner; every exported assertion helper reports through testing.TB on every false path and can fail; mode comparisons under the zero FileModeMask keep all bits (fails: 8 known sites); the final-tree comparison is an equality (fails: known); skip data is read after the parallel subtests ran (fails: known x2); no mutable package state.",
  "note": "Trusted: go/types+go/ssa and rule code; testing.TB failure methods mark the test failed. Known findings demonstrated in /verif/findings/C20_deviants_pass_test.go.txt.",
  "technique": "static analysis: reference scan, path enumeration over assertion helpers, bit-operation shape rule, call-order rule",
 },
 "C01": {
  "text": "Exhaustive over a finite space: the flag decision table of the key-value FS's OpenFile — 48 flag values x 5 look-up situations = 240 cells; in each the single feasible path is followed (flag tests evaluated as constants of the loaded target, look-up tests from the situation) and the outcome (handle kind, create/truncate reached, or error sentinel) must equal the frozen os.OpenFile reference; plus permission masking: caller bits reaching a new record's mode are within ModePerm, Chmod within ModePerm|Setuid|Setgid|Sticky, directory records carry ModeDir. Equality of results/data/trees with os over operation histories is NOT decided.",
  "note": "Trusted: go/types+go/ssa, the path evaluator, the reference table in c01.go. Fault-free evaluation (store writes succeed).",
  "technique": "static analysis: constant evaluation of flag tests along enumerated CFG paths (exhaustive finite table), bit-level def-use of mode values",
 },
 "C02": {
  "text": "Decides the handle mechanisms: read-only/write-only wrappers cannot reach content mutators/readers over the static call graph; every byte-I/O method that touches the content blob has an ErrIsDir directory guard dominating the blob access (one known finding); sizes compared with offset/size parameters are the length of the content loaded in the same call (live size); the first content mutation of write and truncate is dominated by the rejection of a negative offset/size. Transferred bytes, offsets, EOF exactness, zero fill and O_APPEND placement are NOT decided.",
  "note": "Trusted: go/types+go/ssa and rule code; wrappers call the inner file statically.",
  "technique": "static analysis: call-graph reachability, sibling guard comparison with error classes, dominator facts with difference constraints",
 },
 "C03": {
  "text": "Decides the preconditions that keep the flat path->record map a tree on every path of the key-value FS: every create site is dominated by a successful look-up of path.Dir(p) and its IsDir()-true edge (or p is the root, or the ancestor-walk idiom); every delete/replace site is dominated by a not-the-root fact; Rename has a relational test of both names failing with *LinkError before any store; a directory is deleted only after its listing was found empty on that path. The invariant itself over reachable states, listing/Stat/Open agreement and termination are NOT decided.",
  "note": "Trusted: go/types+go/ssa and rule code; A3 listing names are valid elements.",
  "technique": "static analysis: dominator facts with look-up provenance (incl. parallel result slices), path enumeration for disjunctive obligations",
 },
 "C10": {
  "text": "Thin: decides the ordering/provenance mechanisms of the read-only cache — source opened only on the ErrNotExist edge of the cache look-up of the same name; handle returned after a fill rewound successfully or re-opened from the cache; memoised FileInfo is the source handle's Stat() result stored on its success edge under the opened name; directory handle lists through the source and stats through the memoised Stat. Equality of names, kinds, sizes, modes and bytes with the source is NOT decided.",
  "note": "Trusted: go/types+go/ssa and rule code; A1 for source and cache file systems.",
  "technique": "static analysis: dominator edge facts, path enumeration with nil-ness facts, def-use provenance",
 },
 "C11": {
  "text": "Decides the lock and cleanup discipline of the cache fill: look-up, source open and fill after Lock(name) with a deferred Unlock(name) of the same key, no other caller of the fill, per-key mutex obtained by one atomic LoadOrStore; every failing return after the cache file was created removes it; the written cache file's Close error takes part in the result. Interleavings and fault-at-every-index are NOT explored; a cache store without RemoveFS cannot invalidate (stated).",
  "note": "Trusted: go/types+go/ssa and rule code; A2 sync semantics.",
  "technique": "static analysis: lock-region dominance, who-may-call, path enumeration from the creation site with nil-ness facts, dropped-error rule for Close",
 },
 "C12": {
  "text": "Thin: decides that archive header names are normalised (path.Clean + leading-slash trim) before any use and reach only the destination file system's interface/helpers, the announce key and path.Dir (package tar has no primitive sink, so escaping names are refused by the destination, C04/A1); that every destination-call and copy error in the unpack functions and their background closures propagates to the unpack result (dropped-error analysis incl. channel sends, with the error channel drained between entries and at the end); that an existing directory entry gets Chmod with its header mode; parents are created on a success edge before the entry; pool buffers are returned on every continuing path. The resulting tree and writer schedules are NOT decided.",
  "note": "Trusted: go/types+go/ssa and rule code; A1 destination FS rejects escaping names; A2 archive/tar, io.",
  "technique": "static analysis: def-use of header names, dropped-error path analysis across goroutine closures, dominator facts, path enumeration for buffer return",
 },
 "C13": {
  "text": "Decides the orderings the tar FS relies on, on every path: announce only from the regular-file writer, at its exit, after Close of the written file and only when its result error (including the Close error) is nil; Open = validate, wait(name), unpack error nil, open(name); the reader stores the error before both release calls and makes both on every exit; the announce table's maps are accessed only under its mutex with check-and-register in one critical section and callbacks outside it; background writers Add before go, Done on every exit, send errors; and that waiters are released only by the reader (currently a known finding). Byte completeness under every interleaving and liveness are NOT decided.",
  "note": "Trusted: go/types+go/ssa, lockset dataflow and rule code; A2 sync/context semantics.",
  "technique": "static analysis: dominator facts on deferred closures, lockset dataflow (must-held, read/write), path enumeration for release ordering, provenance of the release context",
 },
 "C06": {
  "text": "Decides the routing mechanisms the property's anchors name: prefix tests of names against stored paths end in \"/\" (mount table scan, in-memory listing); every update of the best-so-far mount in the table scan is guarded by a strict length comparison (order independence); each of the 15 MountFS helper branches delegates with the (FS, sub-path) pair of one Mount call and translates the error with that same pair, and mount.Rename uses each route's own sub-path; the mount-table insertion is dominated by validation + existing-directory checks and is an atomic LoadOrStore answered with ErrExist; cross-mount rename removes the destination on every failing exit after creating it and removes the source only after copy and a nil destination Close. That the operation's effect lands in exactly the routed FS and nowhere else, and AddMount interleavings, are NOT decided.",
  "note": "Trusted: go/types+go/ssa and rule code; A1 for mounted file systems; A2 sync.Map.LoadOrStore atomicity.",
  "technique": "static analysis: def-use pairing of Mount results, dominator facts in the Range callback, path enumeration with nil-ness facts for cleanup ordering",
 },
 "C05": {
  "text": "Abstract interpretation of error values (nil / *PathError|*LinkError with the provenance of every path field / error of an interface or standard-os call with the provenance of the path it was given / handle error / raw), with per-function summaries substituted at call sites and structural recognition of translators (type-switch rebuilders) as transfer functions. For ~145 FS-level entry points (every FS-interface method of every FS type and every helper taking an FS, on linux/windows/js builds) it decides: no raw error is returned; path fields derive from the caller's name (right parameter for Old/New), never \"\", an inner Mount sub-path, an OS path or a base name; inner/OS-namespace errors pass through a translator called with the (name, subPath) pair of the Mount call that produced the inner path; the mount translator is expansive. Equality with the path os would name, sentinel agreement per situation and translator string arithmetic are NOT decided.",
  "note": "Trusted: go/types+go/ssa and the engine in errabs.go. A1/A2: dispatched FS methods and standard os functions return *PathError/*LinkError naming the path they were given; File-method errors are accepted as the handle's own.",
  "technique": "static analysis: abstract interpretation of error values with string-provenance lattice, interprocedural summaries, translator transfer functions",
 },
 "C07": {
  "text": "Decides that every path.Join combining a Sub root held in a file-system value (subFS.basePath, os.FS.root) with a name happens where the name is known valid (so the result is lexically inside the root), that root fields only ever receive constants, old roots or validated names, that the generic Sub view reads its parent FS only inside Mount and makes every FS call with the (FS, subPath) pair of one Mount call, and that it translates errors with that same pair. These are the confinement mechanisms; equality of effects between the view and the parent at dir/name is NOT decided.",
  "note": "Trusted: go/types+go/ssa, the validity engine (valid.go). A2: path.Join of a valid root and a valid name stays inside the root; A1 for the parent FS.",
  "technique": "static analysis: name-validity dataflow at join sites and root-field stores, field-access confinement scan, def-use pairing of Mount results",
 },
 "C09": {
  "text": "Decides on linux, windows and darwin builds of package os: every path operand of every standard os call is the first result of the name->OS-path mapping on its success edge (17 call sites); the mapping validates then joins path.Join(\"/\", root, name); the reverse mapping returns \".\" or a ValidPath-tested string, tests the root prefix on an element boundary and requires an absolute path; every error of a standard os function or *os.File method leaves the package through the path translator (38 sites). The inverse law ToOSPath/FromOSPath and real Windows volume semantics are NOT decided.",
  "note": "Trusted: go/types+go/ssa and the rule code; A2 for os/path/filepath.",
  "technique": "static analysis: provenance of call operands (def-use to the mapping call) with dominator nil-edge facts, shape rule on the mapping, who-may-call / must-pass-through for errors",
 },
 "C04": {
  "text": "'For all strings' collapses to 'on every path the gate dominates the effect'. On linux, windows and js/wasm builds, for every function with a string/[]string parameter, an interprocedural taint analysis (levels: unchanged / transformed; summaries per function x parameter to a fixpoint) decides: no name-derived value reaches a primitive sink (Store/Transaction call outside their implementations, stdlib os function, mount-table insertion) unless the name is known valid there (dominating ValidPath edge, success/ErrNotExist edge of a rejecting call on the unchanged name, memo hit in an all-valid table, exit of a validate-all loop); no transformed possibly-invalid name is handed to a file system or returned by a Mount implementation; under the assumption 'this name is invalid' every reachable return of every FS method carries an ErrInvalid-class error (per name of two-name operations; methods whose verdict depends on untracked values are listed as inconclusive and not claimed); ErrInvalid is only constructed under allowed guard kinds; separator discipline. 'State unchanged' is claimed only as 'no sink executed'.",
  "note": "Trusted: go/types+go/ssa, the taint/summary engine in valid.go. A1 (interface-dispatched FS methods reject invalid names: proved here for module FS types, io/fs contract otherwise), A2/A3 (path.* of valid paths are valid; listing names are valid elements); struct fields are not name sources.",
  "technique": "static analysis: interprocedural taint/validity dataflow over SSA with dominator edge facts and per-parameter summaries; path enumeration under an 'invalid name' assumption with error-class abstraction; control-dependence and import scans",
 },
 "C08": {
  "text": "Decides for every package-level helper taking an FS or File (30+ functions, found by signature) and the unexported functions only they reach: on every path on which a fallible call's error is non-nil, the helper returns it, wraps it, hands it on, returns another definitely non-nil error, or consumes it through an enumerated idiom whose context is resolved through the call graph; and that the all-capability-assertions-failed path returns ErrNotImplemented in a *PathError/*LinkError or enters the fallback. This is the clause 'a helper never reports success for work that was not done'; equality of results across the 2^k capability subsets is NOT decided.",
  "note": "Trusted: go/types+go/ssa, the path enumeration (nil-ness facts only) and the enumerated idioms in drop.go; A1: dispatched methods return nil only when the work was done.",
  "technique": "static analysis: bounded path enumeration with nil-ness facts from each fallible call's error edge (error-propagation / dropped-error analysis), call-graph contexts for accepted idioms",
 },
 "C14": {
  "text": "Decides for packages keyvalue/mem: Commit results are never discarded and each element's Err is read (directly or by every caller of a forwarding function); every fallible call's error propagates on every failing path (fault injection at each store call index becomes following each error edge); a pointer/interface result that came with an error is never used; struct fields assigned together with an error are nil-tested before use; Transaction implementations store the store's error into the recorded result. The behavioural remainder (post-fault store view equals FS view, no hang) is NOT decided.",
  "note": "Trusted: go/types+go/ssa, path enumeration and idiom list; A1 for Store/FileRecord implementations; examples/s3 cannot be loaded offline and is out of scope.",
  "technique": "static analysis: dropped-error path analysis over SSA, def-use of Commit results, paired-field nil-guard rule",
 },
 "C16": {
  "text": "Decides for every io/fs.File implementation whose ReadDir(n) computes its own window (keyvalue.file, cache.dir): an io.EOF exit exists under n>0 and a cursor/length test that every nil-error path with n>0 passes; every listing slice has bounds entailed by guards on every phi alternative; every paging path stores the cursor and stored values depend on the old cursor or the listing length; no n>0 path returns an unwindowed listing; listing failure is wrapped in *PathError; by-name listings are sorted by construction (io/fs.ReadDir fallback, ReadDirFS implementations return from sorting sources). Exactly-once delivery across pages as a value-level statement and agreement with Stat are NOT decided.",
  "note": "Trusted: go/types+go/ssa and the rule code; assumes the cursor is never negative (A8; what is stored into it is checked) and stdlib ReadDir sorts (A2).",
  "technique": "static analysis: control-dependence facts, path enumeration with counters, difference-constraint entailment over phi alternatives, def-use",
 },
 "C18": {
  "text": "Decides for every Go-level keyvalue.Transaction implementation found by type (mem.transaction, keyvalue.unsafeSerialTransaction), on every path of Get/GetHandler/Set/SetHandler: exactly one result recorded and one id allocated (incl. the aborted path), recorded Op == returned id, store access only on the not-aborted edge, handler error flows into the recorded Err; Commit/Abort release the mutex the constructor left locked on every path and idempotently (sync.Once); Commit returns results in id order; every transaction begun in package keyvalue is committed or aborted on every path. These are the mechanisms behind 'one result per call, in order; store always released'; isolation between concurrent transactions and value-level Get-reflects-Set are NOT decided.",
  "note": "Trusted: go/types+go/ssa and the rule code. Assumes partial correctness (A6) and that names reaching setFileTxn were validated by callers (A7, checked separately under C04).",
  "technique": "static analysis: bounded path enumeration with per-path counters over SSA, dominator edge facts, lockset-at-return summaries, def-use",
 },
 "C17": {
  "text": "Decides that every dereference of a pointer field some method sets to nil (keyvalue.file.fileData, via own methods, unexported helpers and wrapper types) is dominated by a non-nil test whose failing edge returns an ErrClosed-class error; that every io/fs.File implementation has a closed mark written by Close (or delegates to an inner handle) which every other method consults; and that store write-backs reachable from handle mutators are conditional on the path still existing (currently a known finding). This is 'closed handles fail cleanly, never panic' as visible on every path; handle independence over histories is NOT decided.",
  "note": "Trusted: go/types+go/ssa and the rule code; closers are not called from sibling methods (checked).",
  "technique": "static analysis: contradiction rule (field nil-ed by one method, dereferenced by siblings) with dominator facts keyed by access path, error-class abstraction, call-graph reachability to store writes",
 },
 "C19": {
  "text": "Decides, for every Blob implementation found by type (blob.Bytes; idbblob.Blob under js/wasm), that every parameter-dependent slice/make bound is entailed by dominating guards (difference constraints), negatives are rejected with an error before any mutation, View/Slice select data[start:end], View aliases and Slice copies, no interface dispatch or re-locking under the blob mutex, data stores are followed by the atomic length mirror, and the typed-array blob never stores an unvalidated negative length. This is the part of 'errors not panics / never modifies / aliasing structure / Set terminates' that is visible on every path; byte-exact model equivalence over operation sequences is NOT decided.",
  "note": "Trusted: go/types+go/ssa of x/tools v0.29.0 and the rule code; assumes sequential reading of one receiver's length inside a method (A5), stdlib/JS-engine contracts (A2).",
  "technique": "static analysis: SSA dominator edge facts + difference-constraint closure for bounds, lockset dataflow, def-use shape rules, sibling comparison",
 },
}
NOT_APPLICABLE = {f"C{i:02d}": PENDING for i in range(1, 21) if f"C{i:02d}" not in CLAIMS}

# Clauses added after the independently seeded changes (DESIGN.md §10); appended to the claim text / technique.
ADDENDA = {
 "C01": ("Also decided: Truncate's flag tests one level below OpenFile (O_TRUNC cells); name relations in package keyvalue are tested on element boundaries; every nil return of MkdirAll follows the ancestor classifier's success edge.", "; one-level interprocedural constant evaluation; must-pass-through path rule"),
 "C03": ("Also decided: a record is stored only where its path was found absent or not a directory; prefix tests between names are on element boundaries (keyvalue, mem, mount, helpers); mode updates keep io/fs.ModeType; in Rename children move after the destination record is stored and before the source record is deleted.", "; bitwise abstract evaluation of mode expressions; call-order rule over enumerated paths"),
 "C05": ("Also decided: no value stored into PathError.Path / LinkError.Old/New anywhere in the module can be the empty string (trim results are compared with \"\" unless an element-boundary prefix is trimmed).", "; string non-emptiness analysis with dominator facts and callee return summaries"),
 "C06": ("Also decided: AddMount's existence check opens the mount point through its own route; no Mount(name) route resolution is asked about a string that can never be valid (path.Split's directory half, trailing-slash concatenations).", "; shape rule on route arguments"),
 "C07": ("Also decided: roots are joined with path.Join only (no string concatenation) and a view derived from a view keeps the parent's root on every alternative; no function returns a file system derived from a one-time Mount(dir) route resolution.", "; escape/provenance rule for route results"),
 "C08": ("Also decided (sibling rules): all calls of one fallible callee inside a helper consult the same sentinels; a non-name parameter reaches every delegate unmodified.", "; contradiction/sibling-agreement rules"),
 "C09": ("Also decided: no strings.Replace/ReplaceAll in package os deletes a non-constant pattern (roots come off the front only).", ""),
 "C10": ("Also decided: a copy that was not written and closed successfully does not stay in the cache (the C11 fill analysis).", ""),
 "C11": ("Also decided: the fill reads no slice-typed field of the file system value (no buffer shared between paths under the per-path lock).", "; field-access rule"),
 "C12": ("Also decided: pool buffers are given back at most once per path (callees and spawned writers counted); the normaliser cleans the entry name itself, never a rooted string; directory entries are created in the read loop, not by a spawned writer.", "; per-path release counting with callee may-release summaries"),
 "C15": ("Also decided: blob bounds are compared with a length read inside the critical section that slices; every transaction of the in-memory store holds the store mutex; a move (store under one name, delete under another) is issued on one Transaction value.", "; same-critical-section rule on bound facts"),
 "C17": ("Also decided: every nil-error return of every File method lies on a path that consulted the closed mark or delegated; no File value is put into a sync.Pool.", "; must-pass-through path rule; who-may-call rule"),
 "C18": ("Also decided: the store-locking constructor holds the mutex at every successful return; only Abort and Commit invoke a transaction's cancel function.", "; who-may-call rule"),
 "C19": ("Also decided: bounds facts that justify a slice of the mutex-guarded buffer are established inside the critical section that slices.", ""),
 "C20": ("Also decided: parallel subtest closures capture no loop variable shared between iterations (go 1.18 semantics); error-type helpers assert the error's own dynamic type (no errors.As); goroutines started in a loop are awaited after the loop.", "; loop/closure capture analysis on SSA"),
}
for _k, (_t, _q) in ADDENDA.items():
    CLAIMS[_k]["text"] = CLAIMS[_k]["text"] + " " + _t
    CLAIMS[_k]["technique"] = CLAIMS[_k]["technique"] + _q

# Clauses added after the second round of seeded changes and the agents' reports of pre-existing defects (DESIGN.md §3, last table)
ADDENDA2 = {
 "C01": "Also: no permission bit of a new record comes from a constant; Rename constructs no record; the flag reaches the handle on every path of OpenFile.",
 "C02": "Also: the O_APPEND offset is handed back; an empty write mutates nothing; the handle's Stat loads the content; WriteAt refuses O_APPEND handles; Seek validates before storing the offset; the in-memory store keeps the blob it is given.",
 "C03": "Also: mount.FS.Rename scans the mount table for mount points below the old name (known finding).",
 "C04": "Also: look-ups made with a name merely derived from the root are not ErrInvalid-class, so a parent check placed before the name's validation is a violation.",
 "C05": "Also: TrimPrefix(x, y+\"/\") is preceded by the case x == y.",
 "C06": "Also: every capability-probing helper probes MountFS; the cross-mount destination gets the source's mode through OpenFile and Chmod.",
 "C07": "Also: every capability-probing helper probes MountFS (the generic Sub view delegates through it).",
 "C08": "Also: io/fs.ReadDir is not an acceptable fallback; the recursive removal classifies with Lstat; only SeekFile invokes Seek.",
 "C09": "Also: a view built from an os.FS keeps every string configuration field of its parent.",
 "C10": "Also: the result of the invalidating Remove is read.",
 "C11": "Also: the invalidating Remove's result is read; the per-path lock table never deletes entries; no error of a step of the fill is dropped; the returned handle is rewound or re-opened.",
 "C12": "Also: parents are created with the recursive MkdirAll helper; the final wait polls the error channel again when the writers' completion wins the select.",
 "C13": "Also: the context behind Done() derives from context.Background.",
 "C14": "Also: element k of a ([]*T, []error) look-up is used only where element k of the errors is nil; a recorded store error is overwritten only where it is nil; per-path result slices keep their length on the failure path; in a move the store of the new name aborts the transaction when it failed.",
 "C15": "Also: plain map fields of mutex-owning structs are accessed with the mutex held; methods of keyvalue.FS store into no field of the shared FS value.",
 "C16": "Also: a sum with the caller's count is formed only where the count is bounded above (integer overflow).",
 "C17": "Also: delegation counts as a closed check only if the callee is itself checked on every success path; methods of the OS-backed file call no by-name os function.",
 "C18": "Also: with append-ordered results every operation reserves its slot before its handler runs.",
 "C19": "Also: no method of the slice-backed blob panics on purpose; View and Slice never return the receiver; the js/wasm blob never returns the slice that backs its cache.",
}
for _k, _t in ADDENDA2.items():
    CLAIMS[_k]["text"] = CLAIMS[_k]["text"] + " " + _t

# Clauses added after the third and fourth rounds (DESIGN.md §3, "Rules added after the third and fourth rounds")
ADDENDA3 = {
 "C01": "Also: entries are created only below directories and never over a directory (R03.1/R03.5 analyses); the in-memory listing compares child names with constants only; Chmod/Stat/Rename/reads never store a modification time; a name through a regular file is not told apart from a missing one (known finding).",
 "C02": "Also: OpenFile constructs a record only where the name was not found; a Grow amount equals target minus current length on every path (linear forms); positioned methods and Truncate never store the offset; write methods never keep the caller's buffer; a failed write-back is not undone (known finding).",
 "C03": "Also: the generic Sub view joins with path.Join and refuses to remove its own root; hackpadfs.RemoveAll of an ancestor of a mount point is not refused (known finding).",
 "C04": "Also: a cleaned or joined value of an unvalidated name is never handed to a callee whose own ValidPath gate would then see only the cleaned value.",
 "C05": "Also: write-back errors name the record written; no error outside MkdirAll/RemoveAll names path.Dir of a name; errors of recursive calls on other names are re-wrapped; prefixes computed with TrimSuffix are cut only after the 'is the directory itself' case.",
 "C07": "Also: prefix tests against a view's root are on element boundaries; no helper resolves a route twice.",
 "C08": "Also: OpenFile falls back to Open only for flag == FlagReadOnly; no helper takes one Read or a short count for the whole content; the fallback Sub view joins with path.Join.",
 "C09": "Also: no case-insensitive admission of a prefix that is then cut case-sensitively; Sub never stores the root \".\".",
 "C10": "Also: the fill does not stop at a short count; the never-serve mark of an unremovable partial file is dropped only after a successful Remove; the fill runs once per freshly opened handle; the directory handle can be rewound.",
 "C11": "Also: the never-serve mark discipline (R11.7) and fill-once-per-handle (R11.8).",
 "C12": "Also: read loops keep the bytes that arrive with io.EOF; every entry is created, written or handed to a writer before success is returned; the default destination copies written bytes.",
 "C13": "Also: io.ErrUnexpectedEOF is never turned into io.EOF or success.",
 "C14": "Also: run-once evaluations memoise their error in a field; ErrNotExist is answered only where the operation's own error is nil; a value that came with a tolerated error is not kept in a collection.",
 "C15": "Also (aliases of C19/C14 analyses): no lock-taking call under a blob mutex, views share their parent's mutex, no nil entry after a racing Remove.",
 "C16": "Also: the mount table matches names on element boundaries.",
 "C17": "Also: every error of the OS-backed handle is the inner *os.File's.",
 "C18": "Also: the abort checker answers 'not aborted' only behind its look at the context.",
 "C19": "Also: no Blob method returns a package-level blob; the typed-array blob repeats mutations on its cache with its own parameters.",
 "C20": "Also: by-name listings are not sorted before assertions; errors.Is is applied in one direction; subset assertions between two observed listings have a converse or a distinctness assertion.",
}
for _k, _t in ADDENDA3.items():
    CLAIMS[_k]["text"] = CLAIMS[_k]["text"] + " " + _t

# Clauses added after the fifth round (DESIGN.md §3, "Rules added after the fifth round")
ADDENDA4 = {
 "C01": "Also: times are compared with IsZero/Equal only.",
 "C02": "Also: no FS method positions a handle; sequential reads/writes store the offset on every path after their positioned call.",
 "C03": "Also: a mount point is a valid name other than the root (R06.4 analysis).",
 "C05": "Also: two-name helpers translate with both names; the mount translator never compares the inner path with the caller's name; failing paths above a base/root are reported as \".\".",
 "C06": "Also: the root file system is read only inside the route resolution; the cross-mount copy truncates its destination.",
 "C07": "Also: view types never write their receiver; the translator's namespace typing.",
 "C08": "Also: helpers assert the own capability before MountFS; Create's fallback uses os.Create's flags.",
 "C10": "Also: the cache copy is created with and chmod-ed to the source's mode; the directory handle's Seek computes its cursor from the caller's offset.",
 "C11": "Also: only ErrNotExist of the cache look-up leads to a fill.",
 "C12": "Also: the buffer pool never provisions more buffers than its channel holds.",
 "C13": "Also: the buffer-pool bound (unpacking terminates).",
 "C14": "Also: a non-nil error parameter is not lost; memoised (value, error) pairs are returned together; a whole-look-up failure is reported for every path.",
 "C15": "Also: no blob method returns with its mutex held; in-memory records are immutable once stored; two handles grow a file from one stale length (known finding).",
 "C16": "Also: a paging ReadDir advances its cursor only for a page it returns.",
 "C17": "Also: a second Close fails.",
 "C19": "Also: no method returns with the mutex held; View and Slice refuse the same arguments.",
 "C20": "Also: the tree comparison always walks the file system under test; every TestFile<Op> scenario calls <Op> on a handle.",
}
for _k, _t in ADDENDA4.items():
    CLAIMS[_k]["text"] = CLAIMS[_k]["text"] + " " + _t

ADDENDA5 = {
 "C01": "Also: Rename stores a directory under the new name only where it was found absent; no by-name method succeeds before its look-up.",
 "C02": "Also: a positioned read's window starts at or before the end of the content (an offset past the end answers EOF).",
 "C03": "Also: Rename deletes no record but the source's.",
 "C04": "Also: prefix tests between names in keyvalue and mount are on element boundaries.",
 "C06": "Also: no path is used as a strings.Trim cutset.",
 "C07": "Also: helpers delegate with the pair of one Mount call per name; the generic view delegates to the exported helper of the same name.",
 "C08": "Also: the R06.3 pairing analysis under C08.",
 "C09": "Also: relPath never answers a rooted name; Sub roots are joined with path.Join.",
 "C10": "Also: no copy buffer is kept in the file system value; the directory handle moves its cursor by the page it returns.",
 "C12": "Also: entry-name relations are tested on element boundaries; files are created with the header's own mode.",
 "C13": "Also: only spawned writers send on the error channel; no destination error is dropped.",
 "C14": "Also: ErrNotExist/ErrExist of a mutating callee is not an accepted reason to ignore its error.",
 "C15": "Also: handles mutate the loaded content blob, never a view of it; Range callbacks store no slice element at an unbounded index.",
 "C16": "Also: a paging ReadDir moves its cursor by exactly the page returned; the cache memo and route rules under C16.",
 "C17": "Also: no handle method returns with a mutex held; File helpers hand their file's error on.",
 "C18": "Also: the handler's error reaches the recorded result when the handler runs in a helper.",
 "C19": "Also: caller-sized allocations under the mutex are survivable; js/wasm Truncate records a length bounded by the current one.",
 "C20": "Also: the tree walk records every listed entry.",
}
for _k, _t in ADDENDA5.items():
    CLAIMS[_k]["text"] = CLAIMS[_k]["text"] + " " + _t

ADDENDA6 = {
 "C01": "Also: the whole-file write helper sets no attributes; the flag table classifies kind tests of the looked-up record.",
 "C02": "Also: Truncate reaches no O_APPEND test; positioned methods succeed only after the offset was examined.",
 "C03": "Also: a record is created only on the ErrNotExist edge of the look-up (not on any failed look-up).",
 "C07": "Also: a view built without a root only where the receiver has none; helpers ask for the own interface before MountFS.",
 "C09": "Also: separator parameters are used, no literal backslash; every path field of a translated os error goes through relPath.",
 "C10": "Also: directory pages are cut from the source listing of the same call.",
 "C12": "Also: a directory entry's Mkdir follows the creation of its parents.",
 "C13": "Also: no tar function returns holding a mutex; pool buffers are allocated only after their slot was reserved.",
 "C15": "Also: handles never slice a blob's Bytes() with computed bounds; transaction operations never release the store mutex.",
 "C16": "Also: DirEntry.Type() is type bits only; the cache lists the source in every ReadDir call.",
 "C17": "Also: the os-backed handle returns the errors of its *os.File calls.",
 "C20": "Also: scenarios skip for ErrNotImplemented only; read-back buffers are freshly made.",
}
for _k, _t in ADDENDA6.items():
    CLAIMS[_k]["text"] = CLAIMS[_k]["text"] + " " + _t

ADDENDA7 = {
 "C04": "Also: hackpadfs.ValidPath is exactly io/fs.ValidPath.",
 "C05": "Also: a parent that is not a directory is answered with ErrNotDir.",
 "C06": "Also: nothing that can fail on the destination follows the removal of the source in the cross-mount copy.",
 "C10": "Also: the directory handle's page window is inside the listing; the never-serve mark is read under the path lock.",
 "C11": "Also: the never-serve mark is read under the path lock.",
 "C14": "Also: every transaction begun in package keyvalue ends on every path.",
 "C19": "Also: lengths stored into typed-array blobs built in place are measured or guarded; caller-sized allocations are recovered whether or not the lock is held.",
}
for _k, _t in ADDENDA7.items():
    CLAIMS[_k]["text"] = CLAIMS[_k]["text"] + " " + _t

ADDENDA8 = {
 "C01": "Also: the OpenFile helper takes the fs.Open shortcut only for O_RDONLY.",
 "C05": "Also: no helper falls back to io/fs.ReadDir.",
 "C12": "Also: the default destination's by-name methods save no record looked up under another name; destination files are created truncating; mem's listing is on element boundaries.",
 "C13": "Also: destination files are created with O_TRUNC.",
 "C16": "Also: in package os only Lstat asks os.Lstat; no File helper but SeekFile moves the position.",
 "C17": "Also: Close of the os-backed handle always closes the descriptor.",
}
for _k, _t in ADDENDA8.items():
    CLAIMS[_k]["text"] = CLAIMS[_k]["text"] + " " + _t

ADDENDA9 = {
 "C04": "Also: a refusal leaves no transaction open; no substring test for '..' on names.",
 "C06": "Also: the mount-table insertion is a LoadOrStore; file-system values are compared only under recover; the cross-mount copy runs only between different file systems.",
 "C07": "Also: no substring test for '..' on names (a view refuses exactly what its parent refuses).",
 "C08": "Also: an exported helper answers success only after asking the file system or a handle, and dispatches to its own operation's interface only.",
 "C09": "Also: the error translator returns an error untranslated only for reasons in the error; the reverse mapping never cleans; directory entries handed out are wrapped so that Info() errors are translated.",
 "C10": "Also: the retention policy is asked about the name that was opened.",
 "C14": "Also: attribute setters of the handle answer success only after save(); an error produced in a loop iteration is examined in that iteration.",
 "C18": "Also: a Set of the in-memory store writes no record it did not allocate.",
 "C20": "Also: compared strings are not lexically normalised first.",
}
for _k, _t in ADDENDA9.items():
    CLAIMS[_k]["text"] = CLAIMS[_k]["text"] + " " + _t
