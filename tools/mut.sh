#!/bin/bash
# usage: mut.sh <property> <file> <python-expr old> <new>   — applies a textual edit to a scratch worktree of /repo HEAD
# (under /tmp), checks it builds, runs one property check against it, and removes the worktree.
prop=$1; file=$2; old=$3; new=$4
W=$(mktemp -d /tmp/mutXXXX); rmdir $W
git -C /repo worktree add -q --detach $W HEAD || exit 2
V=$(mktemp -d /tmp/mutvXXXX); cp /verif/known_findings.json /verif/reference_funcs.json $V/ 2>/dev/null
python3 - "$W/$file" "$old" "$new" <<'P'
import sys
p,old,new=sys.argv[1:4]
s=open(p).read()
if old not in s: print("MUT: pattern not found"); sys.exit(3)
open(p,'w').write(s.replace(old,new,1))
P
rc=$?
if [ $rc = 0 ]; then
  (cd $W && GOFLAGS=-mod=mod GOPROXY=off go build ./... 2>&1 | head -5)
  /verif/bin/hpfscheck -repo $W -verif $V -property $prop | grep -E 'VIOLATION|rule|quick:' | head -${MUT_LINES:-6}
fi
git -C /repo worktree remove --force $W; rm -rf $V
