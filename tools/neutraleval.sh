#!/bin/bash
# usage: neutraleval.sh <diff-file> [checker-binary]
# Applies a behaviour-preserving refactoring (a diff relative to /repo HEAD) to a scratch worktree and runs the quick tier
# of all twenty properties against it in one process. Every property must still exit 0: anything else is a false alarm
# of the machinery (or the refactoring is not behaviour-preserving after all — read the report).
diff=$(realpath $1); bin=${2:-/verif/bin/hpfscheck}
export GOFLAGS=-mod=mod GOPROXY=off GOSUMDB=off GOTOOLCHAIN=local; unset GOWORK
W=$(mktemp -d /tmp/nevXXXX); rmdir $W
git -C /repo worktree add -q --detach $W HEAD || exit 2
V=$(mktemp -d /tmp/nevvXXXX); cp /verif/known_findings.json /verif/reference_funcs.json $V/ 2>/dev/null; mkdir -p $V/checker; ln -s /verif/checker/fixtures $V/checker/fixtures
if ! git -C $W apply $diff 2> $V/apply.log; then echo "$(basename $diff) APPLY-FAILED $(head -2 $V/apply.log)"; else
  (cd $W && go build ./... 2>&1 | head -3)
  $bin -repo $W -verif $V -properties all > $V/all.log 2>&1
  bad=$(grep -a '^RESULT property=' $V/all.log | grep -v 'rc=0$' | sed 's/RESULT property=\(C[0-9]*\) .*/\1/' | tr '\n' ' ')
  n=$(grep -ac '^RESULT property=' $V/all.log)
  echo "$(basename $diff): results=$n alarms=[${bad}]"
  grep -a '^  rule\|^  checker failure' $V/all.log | cut -c1-${NEV_COLS:-400} | sort -u | head -${NEV_LINES:-12}
fi
git -C /repo worktree remove --force $W; rm -rf $V
