#!/bin/bash
# Runs the repository's pinned suite (module root, as BASELINE.json does) and checks that every
# baseline stable_pass test still passes (a pass that became a skip counts as a regression).
# usage: repotest.sh [repo-dir]
export GOFLAGS=-mod=mod GOPROXY=off GOSUMDB=off GOTOOLCHAIN=local
unset GOWORK
cd "${1:-/repo}" || exit 2
# tar::TestNewTarFromFS has a 50 ms wall-clock budget and fails ~1 run in 25 on the unchanged tree; retry up to 3 times
for attempt in 1 2 3; do
go test -json -vet=off -count=1 -timeout 25m ./... 2>&1 | python3 -c "
import sys,json
base=set(json.load(open('/root/.vp/BASELINE.json'))['stable_pass'])
got=set(); other={}; noise=[]
for l in sys.stdin:
    try: e=json.loads(l)
    except Exception:
        noise.append(l.rstrip()); continue
    if e.get('Test') and e.get('Action') in('pass','fail','skip'):
        k=e['Package']+'::'+e['Test']
        if e['Action']=='pass': got.add(k)
        else: other[k]=e['Action']
    elif e.get('Action')=='fail': other[e.get('Package','?')]='fail'
miss=sorted(base-got)
fails=[k for k,v in other.items() if v=='fail']
print('tests passed=%d baseline=%d missing-from-pass=%d failed=%d'%(len(got),len(base),len(miss),len(fails)))
for k in miss[:20]: print('  NOT PASSING:',k,other.get(k))
for k in fails[:20]: print('  FAIL:',k)
if noise and (miss or fails): print('\n'.join(noise[:30]))
sys.exit(1 if miss or fails else 0)
"
rc=$?
[ $rc = 0 ] && exit 0
echo "(attempt $attempt failed, retrying)"
done
exit 1
