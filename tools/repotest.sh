#!/bin/bash
# Runs the repository's pinned suite (module root, as BASELINE.json does) and prints pass/fail counts.
# usage: repotest.sh [repo-dir]
export GOFLAGS=-mod=mod GOPROXY=off GOSUMDB=off GOTOOLCHAIN=local
unset GOWORK
cd "${1:-/repo}" || exit 2
out=$(go test -json -vet=off -count=1 -timeout 25m ./... 2>&1)
pass=$(printf '%s\n' "$out" | grep -c '"Action":"pass".*"Test":')
fail=$(printf '%s\n' "$out" | grep -c '"Action":"fail".*"Test":')
pkgfail=$(printf '%s\n' "$out" | grep '"Action":"fail"' | grep -vc '"Test":')
echo "tests passed=$pass failed=$fail package-failures=$pkgfail"
if [ "$fail" != 0 ] || [ "$pkgfail" != 0 ]; then
  printf '%s\n' "$out" | grep '"Action":"fail"' | head -20
  printf '%s\n' "$out" | grep -v '^{' | head -30
  exit 1
fi
