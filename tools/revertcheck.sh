#!/bin/bash
# usage: revertcheck.sh <property> <commit> : reverts one fix commit in a scratch worktree of /repo HEAD (under /tmp),
# runs the property's check against it (the rule must report the construct again), removes the worktree.
prop=$1; commit=$2
W=$(mktemp -d /tmp/rvXXXX); rmdir $W
git -C /repo worktree add -q --detach $W HEAD || exit 2
V=$(mktemp -d /tmp/rvvXXXX); cp /verif/known_findings.json /verif/reference_funcs.json $V/ 2>/dev/null; mkdir -p $V/checker; ln -s /verif/checker/fixtures $V/checker/fixtures
if git -C $W revert --no-commit $commit > $V/r.log 2>&1; then
  (cd $W && GOFLAGS=-mod=mod GOPROXY=off go build ./... 2>&1 | head -3)
  /verif/bin/hpfscheck -repo $W -verif $V -property $prop | grep -E '^  rule|quick:' | cut -c1-300 | head -${RV_LINES:-4}
else echo "revert failed: $(head -2 $V/r.log)"; fi
git -C /repo worktree remove --force $W; rm -rf $V
