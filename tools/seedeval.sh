#!/bin/bash
# usage: seedeval.sh <property> <agent-out-dir> <k>
# Confirms seeded change k (out/change<k>.diff + out/demo<k>_test.go.txt) in a scratch worktree of /repo HEAD:
#   (a) applies and builds, (b) the baseline suite still passes, (c) the demo fails with the change,
#   (d) the demo passes without it; then runs the property's check (and every other property's) against the variant.
prop=$1; out=$2; k=$3
export GOFLAGS=-mod=mod GOPROXY=off GOSUMDB=off GOTOOLCHAIN=local; unset GOWORK
W=$(mktemp -d /tmp/sevXXXX); rmdir $W
git -C /repo worktree add -q --detach $W HEAD || exit 2
V=$(mktemp -d /tmp/sevvXXXX); cp /verif/known_findings.json /verif/reference_funcs.json $V/ 2>/dev/null; mkdir -p $V/checker; ln -s /verif/checker/fixtures $V/checker/fixtures
res="prop=$prop change=$k"
demo=$out/demo${k}_test.go.txt
dest=$(head -3 $demo | grep -o 'copy to: *[^ ]*' | sed 's/copy to: *//')
[ -z "$dest" ] && { echo "$res NO-DEST"; git -C /repo worktree remove --force $W; rm -rf $V; exit 3; }
pkg=./$(dirname $dest)
tname=$(grep -o 'func Test[A-Za-z0-9_]*' $demo | sed 's/func //' | paste -sd'|')  # every test of the demo file (some demos re-exec a child test)
# (d) demo passes without the change
cp $demo $W/$dest
(cd $W && go test -count=1 -run "^(${tname})\$" $pkg > $V/d.log 2>&1); d=$?
rm $W/$dest
# apply
if ! git -C $W apply $out/change$k.diff 2> $V/apply.log; then echo "$res APPLY-FAILED $(head -2 $V/apply.log)"; git -C /repo worktree remove --force $W; rm -rf $V; exit 3; fi
(cd $W && go build ./... > $V/b.log 2>&1); b=$?
if [ -n "$SEV_NOSUITE" ]; then s=skipped; else /verif/tools/repotest.sh $W > $V/s.log 2>&1; s=$?; fi
cp $demo $W/$dest
(cd $W && go test -count=1 -run "^(${tname})\$" $pkg > $V/c.log 2>&1); c=$?
rm $W/$dest
res="$res build=$b suite=$s demo_without=$d demo_with=$c"
caught=""
for p in $([ -n "$SEV_NOCHECK" ] || seq -f 'C%02g' 1 20); do
  if /verif/bin/hpfscheck -repo $W -verif $V -property $p > $V/chk_$p.log 2>&1; then :; else caught="$caught $p"; fi
done
echo "$res caught_by=[${caught# }]"
grep -h '^  rule' $V/chk_$prop.log | cut -c1-260 | head -3
[ -n "$SEV_KEEP" ] && cp $V/chk_*.log /tmp/ 2>/dev/null
git -C /repo worktree remove --force $W; rm -rf $V
