#!/bin/bash
# usage: seedingest.sh <property> <agent-out-dir> <k> : confirms a sub-agent's change with seedeval.sh and, if it
# builds, keeps the suite green, and its demo fails with / passes without the change, stores it under /verif/seeded/<prop>-<k>/
prop=$1; out=$2; k=$3
line=$(/verif/tools/seedeval.sh $prop $out $k 2>&1 | grep '^prop=')
echo "$line"
case "$line" in
  *"build=0 suite=0 demo_without=0 demo_with=1"*) ;;
  *) if [ -z "$SEED_FORCE" ]; then echo "  not confirmed, not kept"; exit 1; fi ;;
esac
id=$((k+${SEED_OFFSET:-0})); d=/verif/seeded/$prop-$id; mkdir -p $d
cp $out/change$k.diff $d/patch.diff
cp $out/demo${k}_test.go.txt $d/demo_test.go.txt
caught=$(echo "$line" | sed 's/.*caught_by=\[\(.*\)\]/\1/')
python3 - "$prop" "$k" "$out" "$line" "$caught" "$d" "$id" <<'P'
import sys,json,re
prop,k,out,line,caught,d,sid=sys.argv[1:8]
notes=open(out+'/NOTES.md').read() if True else ''
# pick the section of NOTES.md about this change
secs=re.split(r'\n(?=#+ .*[Cc]hange *%s|\n## *%s\b|\n### *%s\b)'%(k,k,k),notes)
sec=notes
m=re.search(r'(?ims)^(#+[^\n]*change\s*%s.*?)(?=^#+[^\n]*change\s*[0-9]|\Z)'%k,notes)
if m: sec=m.group(1)
meta={
 "property":prop,
 "seed":f"{prop}-{sid}",
 "author":"independent sub-agent given only the property text and a scratch worktree",
 "needs_to_manifest":sec.strip()[:1800],
 "confirmed":{"command":f"/verif/tools/seedeval.sh {prop} <dir> {k}","result":line,
   "steps":["git apply patch.diff in a scratch worktree of /repo HEAD","go build ./...","baseline suite (tools/repotest.sh): 1307/1307 pass","demo test fails with the change","demo test passes without the change","hpfscheck for all 20 properties against the variant"]},
 "caught_by":[c for c in caught.split() if c],
 "caught_by_own_property": prop in caught.split(),
}
json.dump(meta,open(d+'/meta.json','w'),indent=1)
P
