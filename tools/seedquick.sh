#!/bin/bash
# usage: seedquick.sh <property> <agent-out-dir> <k> [checker-binary]
# Development helper: applies seeded change k to a scratch worktree of /repo HEAD and runs only the property's own
# check against it (no suite, no demo) — to see quickly whether a rule reports the change.
prop=$1; out=$2; k=$3; bin=${4:-/verif/bin/hpfscheck}
export GOFLAGS=-mod=mod GOPROXY=off GOSUMDB=off GOTOOLCHAIN=local; unset GOWORK
W=$(mktemp -d /tmp/sqXXXX); rmdir $W
git -C /repo worktree add -q --detach $W HEAD || exit 2
V=$(mktemp -d /tmp/sqvXXXX); cp /verif/known_findings.json /verif/reference_funcs.json $V/ 2>/dev/null; mkdir -p $V/checker; ln -s /verif/checker/fixtures $V/checker/fixtures
if ! git -C $W apply $out/change$k.diff 2> $V/apply.log; then echo "$prop-$k APPLY-FAILED $(head -2 $V/apply.log)"; else
(cd $W && go build ./... 2>&1 | head -3)
$bin -repo $W -verif $V -property $prop 2>&1 | grep -E '^  rule|quick:|checker failure' | cut -c1-${SQ_COLS:-300} | head -${SQ_LINES:-4} | sed "s/^/$prop-$k: /"
fi
git -C /repo worktree remove --force $W; rm -rf $V
