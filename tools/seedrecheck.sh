#!/bin/bash
# usage: seedrecheck.sh <seed-id>   (e.g. C04-2)
# Recomputes which property checks report a stored seeded change, against /repo HEAD with the current checker, and
# rewrites caught_by / caught_by_own_property in its meta.json. Does not re-run the suite or the demonstration.
id=$1; d=/verif/seeded/$id; prop=${id%%-*}
export GOFLAGS=-mod=mod GOPROXY=off GOSUMDB=off GOTOOLCHAIN=local; unset GOWORK
W=$(mktemp -d /tmp/srcXXXX); rmdir $W
git -C /repo worktree add -q --detach $W HEAD || exit 2
V=$(mktemp -d /tmp/srcvXXXX); cp /verif/known_findings.json /verif/reference_funcs.json $V/ 2>/dev/null; mkdir -p $V/checker; ln -s /verif/checker/fixtures $V/checker/fixtures
applies=true; caught=""; rules=""
if git -C $W apply $d/patch.diff 2>/dev/null; then
  # one process for all twenty properties (programs loaded once); RESULT lines give each property's exit code
  /verif/bin/hpfscheck -repo $W -verif $V -properties all > $V/chk_all.log 2>&1
  caught=$(grep -a '^RESULT property=' $V/chk_all.log | grep -v 'rc=0$' | sed 's/RESULT property=\(C[0-9]*\) .*/\1/' | tr '\n' ' ')
  [ "$(grep -ac '^RESULT property=' $V/chk_all.log)" = 20 ] || caught="CHECKER-DID-NOT-FINISH"
  nn=${prop#C}
  rules=$(grep -aho "rule R$nn\.[0-9]* violated" $V/chk_all.log | sort -u | sed 's/rule \(.*\) violated/\1/' | tr '\n' ' ')
else applies=false; fi
python3 - "$d/meta.json" "$prop" "$applies" "$caught" "$rules" "$(git -C /repo log --format=%h -1)" <<'P'
import json,sys
f,prop,applies,caught,rules,head=sys.argv[1:7]
m=json.load(open(f))
m['patch_applies_to_head']=(applies=='true')
if applies=='true':
    m['caught_by']=caught.split()
    m['caught_by_own_property']=prop in caught.split()
    m['own_rules_reporting']=rules.split()
    m['rechecked_at_repo_commit']=head
json.dump(m,open(f,'w'),indent=1)
print(m['seed'],'applies' if applies=='true' else 'PATCH-DOES-NOT-APPLY',m.get('caught_by'),m.get('own_rules_reporting'))
P
git -C /repo worktree remove --force $W; rm -rf $V
